#!/bin/sh
# usage: ./seeded_trial.sh <patch.diff> <props...>
# Applies a seeded change to a scratch copy of /repo's current tree (never to /repo itself), runs the quick checks
# against it through VERIF_REPO, prints one line per check and removes the copy.
cd "$(dirname "$0")"
PATCH=$1; shift
T=$(mktemp -d /tmp/seeded-trial-XXXXXX)
mkdir -p $T/r && cp -r /repo/skoolkit /repo/c $T/r/ && rm -f $T/r/skoolkit/*.so
( cd $T/r && git init -q . && git apply --whitespace=nowarn "$PATCH" ) || { echo "patch does not apply"; rm -rf $T; exit 3; }
for p in "$@"; do
  VERIF_REPO=$T/r ./check $p --tier quick > out/trial-$p.log 2>&1
  rc=$?
  echo "$p rc=$rc $(grep -m1 'violation class' out/trial-$p.log | cut -c1-120) :: $(grep -v KNOWN out/trial-$p.log | tail -1 | cut -c1-140)"
done
rm -rf $T
