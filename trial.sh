#!/bin/sh
# usage: ./trial.sh <tree> <props...>   - runs the quick checks against another tree (a seeded change); prints one line per check
cd "$(dirname "$0")"
TREE=$1; shift
for p in "$@"; do
  VERIF_REPO=$TREE ./check $p --tier quick > out/trial-$p.log 2>&1
  rc=$?
  echo "$p rc=$rc $(grep -m1 'violation class' out/trial-$p.log) :: $(grep -v KNOWN out/trial-$p.log | tail -1 | cut -c1-160)"
done
