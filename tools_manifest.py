#!/usr/bin/env python3
"""Regenerates MANIFEST.json from the table below (kept as code so the N/A reasons and level texts stay in one place)."""
import json, os, subprocess

HERE = os.path.dirname(os.path.abspath(__file__))

NA = {
 'C01': 'pure function (memory image, range, ctl, options) -> skool text -> bytes; no clock, schedule, fault, crash point or history for a simulator to control (DESIGN.md 5/C01)',
 'C02': 'pure function opcode bytes <-> instruction text; nothing to schedule or fault (DESIGN.md 5/C02)',
 'C03': 'pure text -> text -> text round trip of one input; iteration of a function is not a history of a stateful system (DESIGN.md 5/C03)',
 'C04': 'two pure pipelines over one skool file compared; no time, I/O, interleaving or cross-operation state (DESIGN.md 5/C04)',
 'C07': 'agreement of finite static tables; decided by complete enumeration, which is model checking, not seeded simulation (DESIGN.md 5/C07)',
 'C09': 'snapshot encode/decode is a pure codec pair; its code runs as the durable store of C10/C20 but the property itself has no schedule or fault (DESIGN.md 5/C09)',
 'C11': 'pure function tape block bytes+timings -> edge list; edges are consumed in simulated time by C12/C13 but C11 has no time in it (DESIGN.md 5/C11)',
 'C14': 'pure function image+map+options -> ctl text (DESIGN.md 5/C14)',
 'C15': 'pure function tiles+options -> PNG bytes (DESIGN.md 5/C15)',
 'C16': 'pure function skool+ref+options -> file tree contents; the property is about content, not I/O behaviour, so disk faults have no oracle (DESIGN.md 5/C16)',
 'C18': 'pure text layout function (DESIGN.md 5/C18)',
}

CHECKS = {
 'C05': dict(
   technique='deterministic simulation: per-transition refinement of the four simulator cores against an executable reference Z80 (RefZ80) during simulated machine runs',
   text='Seeded exploration: every dispatch slot of every engine is executed from generated states (boundary-biased) and inside generated programs with scheduler-chosen interrupts; each executed transition must match RefZ80 on registers, documented flags, memory writes, port events and T-states. The first scenarios of every batch execute every entry of every 8-bit flag/result table on every engine (17 M executions per quick run); 16-bit and memory-addressed forms are sampled with boundary bias (operand pairs aimed at carry/overflow boundaries); clock-dependent instructions (HALT, LD A,I/R, EI) are swept around frame boundaries in frames up to 2^40 T-states; run(start, stop, interrupts) is compared with a reference run loop. Sampling of operand spaces, not proof; no fault dimension exists for a single instruction (see DESIGN.md 5/C05).',
   note='Trusts RefZ80 (written from the Zilog manual, independent of SkoolKit tables). Bits 3/5 of F, MEMPTR, documented-undefined flags, the IM result of ED4E/ED6E and the vector-read/push order on interrupt overlap are not judged.',
   ref='DESIGN.md section 5, C05'),
 'C06': dict(
   technique='deterministic simulation: lock-step replicas (Simulator, fast-path Simulator, CSimulator, CMIOSimulator, CCMIOSimulator) on one seeded world, "replicas never diverge" after every event',
   text='Seeded exploration of programs, start states, port values, tracer configurations and interrupt landing points; all implementations are stepped in lock step on the same world and must stay bit-identical (registers incl. R/T/IFF/IM/HALT, MEMPTR within the contended pair, RAM, port-access sequence). Also: batch run(start, stop, interrupts) on all replicas, trace.py with and without --python, an entry-by-entry comparison of every 8-bit table between the Python and C engines, clock sweeps and frame sweeps (every template at the edges of the contended window) as replica comparisons.',
   note='Replicas are reset in place between scenarios; C modules are rebuilt from c/csimulator.c for every run. One known finding (128K without a tracer) is attributed counterfactually.',
   ref='DESIGN.md section 5, C06'),
 'C08': dict(
   technique='deterministic simulation: safety invariants monitored after every event of lock-step runs + pager histories against a reference paging model',
   text='Seeded exploration: ROM digests, register/cell ranges, clock monotonicity and the 128K mapping (reference pager driven by the replica\'s own OUT log) are checked after every event of runs that aim stores and paging writes at the boundaries. Pager histories (random, up to 30 operations with snapshot restarts; and every length-2 history of values, exhaustively in the thorough tier) run on each of the 7 copies of the paging logic x 4 engines against a reference pager; boundary-value range sweeps of every dispatch slot; tap2sna --press scenarios (the latch travelling between the load and keypress tracers).',
   note='C-side bank pointers are observed through executed loads and the Python-visible Memory object, not private fields.',
   ref='DESIGN.md section 5, C08'),
 'C17': dict(
   technique='deterministic simulation of operation histories: model-based stateful testing of two replicas (real AsmWriter and HtmlWriter) against a reference evaluator (RefMacro), compared after every step, with history shrinking',
   text='Seeded exploration of macro histories: state-changing steps (#LET incl. dictionaries, #POKES incl. planted strings, #PUSHS/#POPS, #DEF) followed by reading terms (#EVAL #N #IF #MAP #FOR #FOREACH #WHILE #FORMAT #PEEK #CHR #STR #SPACE #PC and defined macros) generated from the macro grammar (nesting <= 4, every delimiter form, arithmetic over all documented operators and bases, replacement fields); both writers must produce the documented text and the same text as each other (HTML after unescaping), and both memories must equal the model memory.',
   note='No clock or fault exists for this property; histories and two replicas are the explored dimensions. RefMacro generates only terms whose meaning the documentation fixes. Hypothesis is not used: histories are plain term-tree lists in the common replay format (see DESIGN.md).',
   ref='DESIGN.md section 5, C17'),
 'C19': dict(
   technique='deterministic simulation: plain/contended twin engines stepped from identical states at seeded frame positions; delay oracle = RefULA folded over RefZ80 bus cycles',
   text='Seeded exploration over dispatch slots x frame positions x address placements: each contended step must equal its plain twin (T/MEMPTR aside), never be faster, and be slower by exactly the reference ULA delay for the reference bus-cycle list. Frame sweeps execute 214 instruction templates (every bus-cycle shape, boundary straddles) at every T-state of the 48K and 128K frames (all in the thorough tier, a seeded 4% slice in the quick tier).',
   note='Trusts RefZ80 cycle lists and RefULA (written from the published contention description). For the OTIR/OTDR repeat cycles both readings of "bc" (before/after the decrement of B) are accepted.',
   ref='DESIGN.md section 5, C19'),
 'C12': dict(
   technique='deterministic simulation: producer (bin2tap) -> timed channel (tape deck with seeded delays/polarity/pause/fast-forward) -> consumer (ROM + emitted loaders running in the simulated machine); end-to-end delivery oracle',
   text='Seeded exploration of binaries, ORG/START/STACK/CLEAR/begin/end, screens, 128K bank sets and simulated-LOAD configurations (engine, fast load, accelerators, pause, polarity, first edge): the tape bin2tap writes is loaded by tap2sna and the snapshot must hold the original bytes, PC and SP (and banks/0x7FFD for 128K).',
   note='Generator stays inside the envelope the bin2tap man page documents (see DESIGN.md 5/C12 for the conventions used where the man page is silent). Damaged tapes are not part of the property.',
   ref='DESIGN.md section 5, C12'),
 'C13': dict(
   technique='deterministic simulation: one tape loaded under a lattice of clock-jump/engine configurations (accelerators, DEC-A, fast load, pause, cmio, C/Python, seeded accelerator-set order); literal execution is the reference',
   text='Seeded exploration of tapes (bin2tap tapes; headerless TZX/PZX turbo blocks loaded by custom loaders built from the code signatures of 39 named accelerators) x configurations: strict group must reproduce the literal execution bit for bit (RAM, registers incl. R and absolute T, hardware state), weak group the loaded bytes, PC and SP. Landing scenarios place a tape edge exactly on (or 1 T beside) an instant at which the loader samples EAR or an accelerator fast-forward ends, found by a probe execution through the LoadTracer._read_port seam; further tape shapes: a second loader copied over the first between blocks, interrupt-enabled loaders arriving late at a block, pilotless decoy blocks, pulses longer than the sampling time-out.',
   note='Final state captured at simulator level by wrapping tap2sna.get_state; MEMPTR not compared; scenarios whose reference load fails are discarded and counted; accelerators outside the ROM-like family (14 of 53) are not reached by the custom loaders.',
   ref='DESIGN.md section 5, C13'),
 'C20': dict(
   technique='deterministic simulation: record/replay with restarts - harness RZX recorder driving a real core, rzxplay on C and Python engines, stop/dump/resume at seeded frames, only the dumped file survives',
   text='Seeded exploration of recordings (programs, frame lengths incl. 1-3-fetch and zero-fetch frames, port readings, repeat markers, snapshot formats, second snapshot+recording pair, recording conventions/--flags), stop points and engine choices: playback must complete without desynchronisation and end in the recorder\'s state, C and Python must agree, resume from the dumped RZX must reach the same state, rzxinfo must list exactly what was recorded.',
   note='Trusts the harness recorder/encoder (follows the RZX conventions documented by rzxplay --flags help). Same engine family (plain/--cmio) for recorder and players. fe is not compared when a Z80 snapshot is involved; MEMPTR loss at Z80 restarts under --cmio is modelled in the reference.',
   ref='DESIGN.md section 5, C20'),
 'C10': dict(
   technique='deterministic simulation: crash-restart at seeded instruction boundaries, oracle = uninterrupted run',
   text='Seeded exploration of crash points: generated programs are run by the real trace.py once uninterrupted and once as a chain of legs that survive only through the SZX/Z80 files they write; final simulator states must agree. Evidence, not proof: crash points, programs, machines and engines are sampled with boundary bias.',
   note='Trusts: the harness program generator and the state comparison; trace.main driven in-process; same engine for reference and crash chain; for Z80 legs under --cmio the reference is the SZX chain with MEMPTR:=0 at the crash point.',
   ref='DESIGN.md section 5, C10'),
}

def main():
    checks = []
    for pid, c in sorted(CHECKS.items()):
        checks.append({
            'property_id': pid,
            'quick_cmd': 'cd /verif && ./check %s --tier quick' % pid,
            'thorough_cmd': 'cd /verif && ./check %s --tier thorough' % pid,
            'evidence_file': '/verif/evidence/%s.json' % pid,
            'replay_cmd_template': 'cd /verif && ./check %s --replay {path}' % pid,
            'engine': 'zxsim',
            'level_claimed': {'category': 'exploration', 'text': c['text'], 'design_ref': c['ref']},
            'level_note': c['note'],
            'technique': c['technique'],
        })
    m = {
        'version': 1,
        'setup_cmd': 'cd /verif && ./setup.sh',
        'hooks': {
            'guard': 'SKOOLKIT_VERIF',
            'enable': 'no hooks exist in /repo: every seam the checks need (tracer interface, memory object, register array, main(args) entry points) is already present; the guard name is reserved only',
            'baseline_off_cmd': 'cd /repo && /venv/bin/python -m pytest -ra -q -p no:cacheprovider --timeout=900 --continue-on-collection-errors',
            'source_commits': [],
            'add_only': True,
        },
        'engines': [{
            'name': 'zxsim', 'path': '/verif/zxsim', 'serves_properties': sorted(CHECKS),
            'kind_free_text': 'deterministic simulation harness: seeded scenario generator, real skoolkit tools/simulators run in-process on a scratch build of /repo, crash/restart and configuration faults, reference-model oracles, shrinking, replay files',
        }],
        'checks': checks,
        'not_applicable': [{'property_id': k, 'reason': v} for k, v in sorted(NA.items())],
        'notes': 'Technique family: deterministic simulation with fault injection. See DESIGN.md. Genuine defects repaired in /repo are listed as fixed in known_findings.json.',
    }
    with open(os.path.join(HERE, 'MANIFEST.json'), 'w') as f:
        json.dump(m, f, indent=1)
    print('wrote MANIFEST.json with', len(checks), 'checks,', len(NA), 'n/a')

if __name__ == '__main__':
    main()
