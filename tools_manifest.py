#!/usr/bin/env python3
"""Regenerates MANIFEST.json from the table below (kept as code so the N/A reasons and level texts stay in one place)."""
import json, os, subprocess

HERE = os.path.dirname(os.path.abspath(__file__))

NA = {
 'C01': 'pure function (memory image, range, ctl, options) -> skool text -> bytes; no clock, schedule, fault, crash point or history for a simulator to control (DESIGN.md 5/C01)',
 'C02': 'pure function opcode bytes <-> instruction text; nothing to schedule or fault (DESIGN.md 5/C02)',
 'C03': 'pure text -> text -> text round trip of one input; iteration of a function is not a history of a stateful system (DESIGN.md 5/C03)',
 'C04': 'two pure pipelines over one skool file compared; no time, I/O, interleaving or cross-operation state (DESIGN.md 5/C04)',
 'C07': 'agreement of finite static tables; decided by complete enumeration, which is model checking, not seeded simulation (DESIGN.md 5/C07)',
 'C09': 'snapshot encode/decode is a pure codec pair; its code runs as the durable store of C10/C20 but the property itself has no schedule or fault (DESIGN.md 5/C09)',
 'C11': 'pure function tape block bytes+timings -> edge list; edges are consumed in simulated time by C12/C13 but C11 has no time in it (DESIGN.md 5/C11)',
 'C14': 'pure function image+map+options -> ctl text (DESIGN.md 5/C14)',
 'C15': 'pure function tiles+options -> PNG bytes (DESIGN.md 5/C15)',
 'C16': 'pure function skool+ref+options -> file tree contents; the property is about content, not I/O behaviour, so disk faults have no oracle (DESIGN.md 5/C16)',
 'C18': 'pure text layout function (DESIGN.md 5/C18)',
}

CHECKS = {
 'C10': dict(
   technique='deterministic simulation: crash-restart at seeded instruction boundaries, oracle = uninterrupted run',
   text='Seeded exploration of crash points: generated programs are run by the real trace.py once uninterrupted and once as a chain of legs that survive only through the SZX/Z80 files they write; final simulator states must agree. Evidence, not proof: crash points, programs, machines and engines are sampled with boundary bias.',
   note='Trusts: the harness program generator and the state comparison; trace.main driven in-process; same engine for reference and crash chain; for Z80 legs under --cmio the reference is the SZX chain with MEMPTR:=0 at the crash point.',
   ref='DESIGN.md section 5, C10'),
}

def main():
    checks = []
    for pid, c in sorted(CHECKS.items()):
        checks.append({
            'property_id': pid,
            'quick_cmd': 'cd /verif && ./check %s --tier quick' % pid,
            'thorough_cmd': 'cd /verif && ./check %s --tier thorough' % pid,
            'evidence_file': '/verif/evidence/%s.json' % pid,
            'replay_cmd_template': 'cd /verif && ./check %s --replay {path}' % pid,
            'engine': 'zxsim',
            'level_claimed': {'category': 'exploration', 'text': c['text'], 'design_ref': c['ref']},
            'level_note': c['note'],
            'technique': c['technique'],
        })
    m = {
        'version': 1,
        'setup_cmd': 'cd /verif && ./setup.sh',
        'hooks': {
            'guard': 'SKOOLKIT_VERIF',
            'enable': 'no hooks exist in /repo: every seam the checks need (tracer interface, memory object, register array, main(args) entry points) is already present; the guard name is reserved only',
            'baseline_off_cmd': 'cd /repo && /venv/bin/python -m pytest -ra -q -p no:cacheprovider --timeout=900 --continue-on-collection-errors',
            'source_commits': [],
            'add_only': True,
        },
        'engines': [{
            'name': 'zxsim', 'path': '/verif/zxsim', 'serves_properties': sorted(CHECKS),
            'kind_free_text': 'deterministic simulation harness: seeded scenario generator, real skoolkit tools/simulators run in-process on a scratch build of /repo, crash/restart and configuration faults, reference-model oracles, shrinking, replay files',
        }],
        'checks': checks,
        'not_applicable': [{'property_id': k, 'reason': v} for k, v in sorted(NA.items())],
        'notes': 'Technique family: deterministic simulation with fault injection. See DESIGN.md. Genuine defects repaired in /repo are listed as fixed in known_findings.json.',
    }
    with open(os.path.join(HERE, 'MANIFEST.json'), 'w') as f:
        json.dump(m, f, indent=1)
    print('wrote MANIFEST.json with', len(checks), 'checks,', len(NA), 'n/a')

if __name__ == '__main__':
    main()
