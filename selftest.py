#!/venv/bin/python
"""Determinism self-test: the same VERIF_SEED must give the same per-run digests
 - twice in a row, - at two worker counts, - under two PYTHONHASHSEED values, each in a fresh interpreter.

usage: ./selftest.py determinism [props...] [--runs N]
Writes selftest-determinism.json (committed; merged per property) and prints one line per property; exit 1 on any divergence.
"""
import json
import os
import subprocess
import sys

HERE = os.path.dirname(os.path.abspath(__file__))
PROPS = ['C05', 'C06', 'C08', 'C10', 'C12', 'C13', 'C17', 'C19', 'C20']
RUNS = {'C05': 4000, 'C06': 4000, 'C08': 3000, 'C10': 400, 'C12': 120, 'C13': 24, 'C17': 400, 'C19': 4000, 'C20': 200}

def one(prop, runs, jobs, hashseed, seed, tag):
    out = os.path.join(HERE, 'out', 'selftest', '%s-%s.json' % (prop, tag))
    os.makedirs(os.path.dirname(out), exist_ok=True)
    env = dict(os.environ, PYTHONHASHSEED=str(hashseed), VERIF_SEED=str(seed), VERIF_EVIDENCE_DIR=os.path.join(HERE, 'out', 'selftest', 'evidence'))
    p = subprocess.run([os.path.join(HERE, 'check'), prop, '--runs', str(runs), '--jobs', str(jobs), '--budget', '1200', '--digest-out', out],
                       env=env, capture_output=True, text=True)
    if p.returncode not in (0, 1):
        raise SystemExit('check %s failed (rc=%d):\n%s' % (prop, p.returncode, p.stdout[-2000:] + p.stderr[-2000:]))
    with open(out) as f:
        return json.load(f)

def main():
    args = sys.argv[1:]
    if not args or args[0] != 'determinism':
        print(__doc__)
        return 2
    props = [a for a in args[1:] if a.startswith('C')] or PROPS
    runs_override = None
    if '--runs' in args:
        runs_override = int(args[args.index('--runs') + 1])
    rp = os.path.join(HERE, 'selftest-determinism.json')
    try:
        with open(rp) as f:
            report = json.load(f)
    except (OSError, ValueError):
        report = {}
    bad = 0
    for prop in props:
        runs = runs_override or RUNS[prop]
        configs = [(16, 0, 'a'), (16, 0, 'b'), (3, 0, 'c'), (16, 12345, 'd'), (5, 987, 'e')]
        results = [one(prop, runs, j, h, 7, t) for (j, h, t) in configs]
        ref = results[0]['runs']
        diffs = []
        for (j, h, t), r in zip(configs[1:], results[1:]):
            if r['runs'] != ref:
                n = sum(1 for x, y in zip(ref, r['runs']) if x != y) + abs(len(ref) - len(r['runs']))
                diffs.append({'jobs': j, 'hashseed': h, 'differing_runs': n})
        report[prop] = {'runs': len(ref), 'executions': len(configs), 'configs': [{'jobs': j, 'PYTHONHASHSEED': h} for j, h, _ in configs],
                        'batch_digest': results[0]['batch'], 'divergences': diffs,
                        'empty_digests': sum(1 for _, d in ref if not d)}
        status = 'DETERMINISTIC' if not diffs else 'DIVERGES'
        if diffs:
            bad += 1
        print('%s %s: %d runs x %d executions (jobs 16/16/3/16/5, PYTHONHASHSEED 0/0/0/12345/987) %s' % (prop, status, len(ref), len(configs), diffs or ''))
        sys.stdout.flush()
        with open(rp, 'w') as f:
            json.dump(report, f, indent=1)
    return 1 if bad else 0

if __name__ == '__main__':
    sys.exit(main())
