#!/bin/sh
# Offline setup: verifies the toolchain the checks need; every check rebuilds skoolkit from /repo itself.
set -e
cd "$(dirname "$0")"
command -v gcc >/dev/null || { echo "gcc missing"; exit 1; }
/venv/bin/python - <<'PY'
import sysconfig, os, sys
inc = sysconfig.get_paths()['include']
assert os.path.exists(os.path.join(inc, 'Python.h')), 'Python.h missing'
try:
    import hypothesis
except ImportError:
    import subprocess
    subprocess.check_call([sys.executable, '-m', 'pip', 'install', '--no-index', '--find-links', '/opt/veriftools/wheels', 'hypothesis'])
    import hypothesis
print('python', sys.version.split()[0], 'hypothesis', hypothesis.__version__)
sys.path.insert(0, os.getcwd())
from zxsim import build
d = build.build()
import skoolkit
print('scratch build ok:', skoolkit.CSimulator, skoolkit.CCMIOSimulator)
PY
mkdir -p evidence out/replays
echo setup ok
