#!/bin/sh
# Usage: ./soak.sh "<seeds>" "<props>" [tier]   - runs checks over several VERIF_SEED values; prints a summary line per run
cd "$(dirname "$0")"
SEEDS=${1:-"1 2 3 4 5"}
PROPS=${2:-"C05 C06 C08 C10 C12 C13 C17 C19 C20"}
TIER=${3:-quick}
mkdir -p out/soak
for s in $SEEDS; do
  for p in $PROPS; do
    [ -f zxsim/p${p#C}.py ] || continue
    VERIF_SEED=$s ./check $p --tier $TIER > out/soak/$p-$s.log 2>&1
    rc=$?
    echo "seed=$s $p rc=$rc $(grep -c VIOLATION out/soak/$p-$s.log) violation line(s) $(grep -c 'HARNESS-ERROR' out/soak/$p-$s.log) harness error(s) :: $(tail -1 out/soak/$p-$s.log | cut -c1-150)"
    if [ $rc -ne 0 ]; then grep -A12 'violation class\|HARNESS-ERROR' out/soak/$p-$s.log | head -40; mkdir -p out/soak/replays; cp out/replays/$p-*.json out/soak/replays/ 2>/dev/null; fi
  done
done
