"""RefMacro - reference evaluator / generator-with-answer for the C17 macro subset.

A history is a list of *term trees* (plain JSON).  `Model.apply(tree)` renders the macro text and computes
the expansion the documentation prescribes at the same time, updating the model state (variables, 64K
memory, snapshot stack, defined macros).  Only terms whose meaning the documentation fixes are generated:
no division by zero, no negative operands for / and %, fully parenthesised mixed-operator expressions,
&& and || only as conditions, delimiters that do not occur in the delimited text, POKEs inside 0..65535
with byte values 0..255, #CHR codes outside the C1 range.

Term trees
  integer expressions E:  ['lit', n, 'd'|'h'] ['bin', op, E, E] ['var', name] ['dget', name, key] ['peek', E]
                          ['evali', E] ['ifi', C, E, E] ['fld', 'base'|'case'] ['vars', name]
  conditions C:           ['cmp', op, E, E] ['and', C, C] ['or', C, C] ['truth', E]
  strings S:              ['t', text] ['cat', S...] ['eval', E, base, width, style] ['n', E, hwidth, dwidth, affix, hex, prefix, suffix]
                          ['if', C, S, S|None, delim] ['map', E, S, [[k, S]...], delim] ['for', E, E, E, flags, var, S, sep, fsep, delim]
                          ['foreach', [S...], var, S, sep, fsep, delim] ['format', case, [parts], delim] ['peeks', E] ['chr', n, flags]
                          ['space', E|None, paren] ['str', addr, flags, length] ['pc'] ['call', name, [E...], [S...]] ['svar', name] ['hash', S]
                          ['while', name, n, S]
  state changes:          ['let', name, E] ['lets', name, S] ['letd', name, isstr, default, [[k, v]...]] ['letk', name, isstr, key E, value]
                          ['pokes', [[addr, byte, length, step]...]] ['pushs', name] ['pops'] ['def', name, flags, [[iname, default|None]...], [[sname, default|None]...], body]
"""
import html
import random

SAFE_TEXT = 'abcdefghijklmnopqrstuvwxyz ABCDEFGHIJKLMNOPQRSTUVWXYZ0123456789.:;!?_-+*=\'"<>&'
ALT_DELIMS = '/|!@~^%:'
OPS = ['+', '-', '*', '/', '%', '**', '&', '|', '^', '>>', '<<']
CMPS = ['==', '!=', '>', '<', '>=', '<=']
ZX_CHARS = {94: 8593, 96: 163, 127: 169}

class Unsupported(Exception):
    pass

def top_level_comma(text):
    depth = 0
    for ch in text:
        if ch == '(':
            depth += 1
        elif ch == ')':
            depth -= 1
        elif ch == ',' and depth == 0:
            return True
    return False

def balanced(text):
    depth = 0
    for ch in text:
        if ch == '(':
            depth += 1
        elif ch == ')':
            depth -= 1
            if depth < 0:
                return False
    return depth == 0

class Model:
    def __init__(self, memory, base=0, case=0, pc=32768):
        self.mem = bytearray(memory)          # 64K
        self.stack = []                       # saved images (bytes)
        self.names = ['']                     # snapshot names ('' = base)
        self.pokes = {'': []}
        self.vars = {}                        # name -> int | str
        self.dicts = {}                       # name -> (isstr, default, {k: v})
        self.defs = {}                        # macro name -> definition
        self.base = base
        self.case = case
        self.flds = {'base': base, 'case': case}     # #LET may change these fields; {mode[...]} keeps the originals
        self.pc = pc
        self.touched = set()

    # -- integer expressions ----------------------------------------------------
    def E(self, t):
        """-> (text, value)"""
        k = t[0]
        if k == 'lit':
            n = t[1]
            if t[2] == 'v':
                return n, 0        # loop variable placeholder: only its text matters before substitution
            if t[2] == 'h' and n >= 0:
                return '$%X' % n, n
            return str(n), n
        if k == 'bin':
            op = t[1]
            at, av = self.E(t[2])
            bt, bv = self.E(t[3])
            if op == '+':
                v = av + bv
            elif op == '-':
                v = av - bv
            elif op == '*':
                v = av * bv
            elif op in ('/', '%'):
                if av < 0 or bv <= 0:
                    raise Unsupported('division domain')
                v = av // bv if op == '/' else av % bv
            elif op == '**':
                if not (0 <= bv <= 4 and abs(av) <= 64):
                    raise Unsupported('power domain')
                v = av ** bv
            elif op == '&':
                v = av & bv
            elif op == '|':
                v = av | bv
            elif op == '^':
                v = av ^ bv
            elif op in ('>>', '<<'):
                if not (0 <= bv <= 12) or av < 0:
                    raise Unsupported('shift domain')
                v = av >> bv if op == '>>' else av << bv
            else:
                raise ValueError(op)
            if abs(v) > 1 << 40:
                raise Unsupported('magnitude')
            sp = ' ' if t[4:] and t[4] else ''
            return '(%s%s%s%s%s)' % (at, sp, op, sp, bt), v
        if k == 'var':
            if not isinstance(self.vars.get(t[1]), int):
                raise Unsupported('no such int var')
            return '{%s}' % t[1], self.vars[t[1]]
        if k == 'dget':
            d = self.dicts.get(t[1])
            if d is None or d[0]:
                raise Unsupported('no such int dict')
            return '{%s[%d]}' % (t[1], t[2]), d[2].get(t[2], d[1])
        if k == 'peek':
            at, av = self.E(t[1])
            return '#PEEK(%s)' % at, self.mem[av & 65535]
        if k == 'evali':
            at, av = self.E(t[1])
            return '#EVAL(%s)' % at, av
        if k == 'ifi':
            ct, cv = self.C(t[1])
            at, av = self.E(t[2])
            bt, bv = self.E(t[3])
            d = t[4] if t[4:] else '('
            if d != '(' and ('{' in at + bt or '[' in at + bt):
                d = '('
            if top_level_comma(at) or top_level_comma(bt):
                # only parentheses protect a comma inside a string parameter
                raise Unsupported('unprotected comma in an #IF branch')
            return '#IF(%s)%s%s,%s%s' % (ct, d, at, bt, {'(': ')', '[': ']', '{': '}'}[d]), av if cv else bv
        if k == 'mapi':
            # #MAP nested in an integer parameter: values are integer literals
            et, ev = self.E(t[1])
            d = t[4]
            pairs = dict((kk, vv) for kk, vv in t[3])
            body = ','.join([str(t[2])] + ['%d:%d' % (kk, vv) for kk, vv in t[3]])
            return '#MAP(%s)%s%s%s' % (et, d, body, {'(': ')', '[': ']', '{': '}'}[d]), pairs.get(ev, t[2])
        if k == 'fld':
            if t[2:] and t[2]:
                return '{mode[%s]}' % t[1], {'base': self.base, 'case': self.case}[t[1]]
            return '{%s}' % t[1], self.flds[t[1]]
        if k == 'vars':
            return '{vars[%s]}' % t[1], 0
        raise ValueError(t)

    def C(self, t):
        k = t[0]
        if k == 'cmp':
            at, av = self.E(t[2])
            bt, bv = self.E(t[3])
            v = {'==': av == bv, '!=': av != bv, '>': av > bv, '<': av < bv, '>=': av >= bv, '<=': av <= bv}[t[1]]
            return '(%s%s%s)' % (at, t[1], bt), bool(v)
        if k in ('and', 'or'):
            at, av = self.C(t[1])
            bt, bv = self.C(t[2])
            op = '&&' if k == 'and' else '||'
            sp = ' ' if t[3:] and t[3] else ''
            return '(%s%s%s%s%s)' % (at, sp, op, sp, bt), (av and bv) if k == 'and' else (av or bv)
        if k == 'truth':
            at, av = self.E(t[1])
            return at, bool(av)
        raise ValueError(t)

    # -- delimiters -----------------------------------------------------------------
    def one(self, text, delim, fmt_ctx=False):
        """Render a single string parameter."""
        if delim == '(' and balanced(text):
            return '(%s)' % text
        if delim == '[' and '[' not in text and ']' not in text:
            return '[%s]' % text
        if delim == '{' and '{' not in text and '}' not in text and not fmt_ctx:
            return '{%s}' % text
        if delim in ALT_DELIMS and delim not in text and not text[:1].isspace():
            return delim + text + delim
        if balanced(text):
            return '(%s)' % text
        for d in ALT_DELIMS:
            if d not in text:
                return d + text + d
        raise Unsupported('no delimiter available')

    def many(self, parts, delim, fmt_ctx=False):
        """Render a comma-separated (or alternative-separator) list of string parameters."""
        joined = ''.join(parts)
        comma_ok = all(not top_level_comma(p) for p in parts)
        if comma_ok:
            body = ','.join(parts)
            if delim == '(' and balanced(body):
                return '(%s)' % body
            if delim == '[' and '[' not in joined and ']' not in joined:
                return '[%s]' % body
            if delim == '{' and '{' not in joined and '}' not in joined and not fmt_ctx:
                return '{%s}' % body
        if isinstance(delim, list) or (len(delim) == 2):
            d, s = delim[0], delim[1]
            # with the same character as delimiter and separator an empty parameter after the first is ambiguous
            if d in ALT_DELIMS and d not in joined and s not in joined and s not in '&<>' and d not in '&<>' and (s == d or s in ' /|:!@~^%') \
                    and (s != d or all(parts[1:])) and not (s == ' ' and any(p != p.strip() or not p for p in parts)):
                return d + s + s.join(parts) + s + d
        if comma_ok and balanced(','.join(parts)):
            return '(%s)' % ','.join(parts)
        for d in ALT_DELIMS:
            for sp in ALT_DELIMS:
                if d != sp and d not in joined and sp not in joined:
                    return d + sp + sp.join(parts) + sp + d
        raise Unsupported('no separator available')

    def ints(self, texts, paren=True):
        """Render integer parameters; blank optionals are given as None."""
        vals = ['' if t is None else t for t in texts]
        while vals and vals[-1] == '':
            vals.pop()
        s = ','.join(vals)
        return '(%s)' % s if paren else s

    # -- strings --------------------------------------------------------------------------
    def S(self, t):
        """-> (text, expansion)"""
        k = t[0]
        if k == 't':
            return t[1], t[1]
        if k == 'cat':
            parts = [self.S(x) for x in t[1:]]
            return ''.join(p[0] for p in parts), ''.join(p[1] for p in parts)
        if k == 'eval':
            pre = ''
            if t[5:] and t[5]:
                # a #LET nested at the start of the parenthesised parameter: macros are expanded before replacement
                # fields are substituted, so the expression reads the new value
                _, name, e1 = t[5]
                e1t, e1v = self.E(e1)
                self.vars[name] = e1v
                pre = '#LET(%s=%s)' % (name, e1t)
            et, ev = self.E(t[1])
            et = pre + et
            base, width = t[2], t[3]
            if base == 2:
                out = '{:0{}b}'.format(ev, width)
            elif base == 16:
                out = ('{:0{}x}' if self.case == 1 else '{:0{}X}').format(ev, width)
            else:
                out = '{:0{}}'.format(ev, width)
            if t[4] == 'bare' and t[1][0] == 'lit' and t[1][1] >= 0:
                txt = '#EVAL' + self.ints([et, None if base == 10 and width == 1 else str(base), None if width == 1 else str(width)], False)
                if txt == '#EVAL' + et:
                    txt += ''      # followed by a delimiter char added by the caller
            elif t[4] == 'kw':
                txt = '#EVAL(%s,base=%d,width=%d)' % (et, base, width)
            else:
                txt = '#EVAL' + self.ints([et, None if base == 10 and width == 1 else str(base), None if width == 1 else str(width)])
            return txt, out
        if k == 'n':
            et, ev = self.E(t[1])
            hwidth, dwidth, affix, hx, prefix, suffix = t[2:8]
            if ev < 0:
                raise Unsupported('negative #N')
            txt = '#N' + self.ints([et, None if hwidth is None else str(hwidth), None if dwidth is None else str(dwidth), '1' if affix else None, '1' if hx else None])
            if affix:
                if suffix is None:
                    txt += self.one(prefix, '(')
                    suffix = ''
                else:
                    txt += self.many([prefix, suffix], '(')
            if self.base == 16 or (hx and self.base != 10):
                hw = hwidth if hwidth is not None else (2 if 0 <= ev < 256 else 4)
                body = ('{:0{}x}' if self.case == 1 else '{:0{}X}').format(ev, hw)
                out = (prefix if affix else '') + body + (suffix if affix else '')
            else:
                out = '{:0{}}'.format(ev, dwidth if dwidth is not None else 1)
            return txt, out
        if k == 'if':
            ct, cv = self.C(t[1])
            at, ao = self.S(t[2])
            if t[3] is None:
                return '#IF(%s)%s' % (ct, self.many([at], t[4]) if True else ''), ao if cv else ''
            bt, bo = self.S(t[3])
            return '#IF(%s)%s' % (ct, self.many([at, bt], t[4])), ao if cv else bo
        if k == 'map':
            et, ev = self.E(t[1])
            dt, do = self.S(t[2])
            parts = [dt]
            out = do
            seen = {}
            for key, val in t[3]:
                vt, vo = self.S(val)
                if ':' in vt.split('(')[0] and False:
                    raise Unsupported('colon')
                parts.append('%d:%s' % (key, vt))
                seen[key] = vo          # later pairs override earlier ones
            if ev in seen:
                out = seen[ev]
            return '#MAP(%s)%s' % (et, self.many(parts, t[4])), out
        if k == 'for':
            st, sv = self.E(t[1])
            pt, pv = self.E(t[2])
            tt, tv = self.E(t[3])
            flags, var = t[4], t[5]
            if tv == 0 or abs((pv - sv) // tv) > 12:
                raise Unsupported('for range')
            bt, bo = self.S(t[6])          # body (its text contains var)
            sep, fsep = t[7], t[8]
            rng_ = list(range(sv, pv + (1 if tv > 0 else -1), tv))
            sepx = sep or ''
            if flags & 1:
                sepx = ',' + sepx
            if flags & 2:
                sepx = sepx + ','
            # the variable name is substituted textually in the (unexpanded) body, then macros are expanded
            outs = []
            for n in rng_:
                outs.append(self._subst_expand(t[6], var, str(n)))
            seps = [(sepx.replace(var, str(n)) if flags & 4 else sepx) for n in rng_]
            res = ''
            for i, o in enumerate(outs):
                res += o
                if i < len(outs) - 1:
                    if i == len(outs) - 2 and fsep is not None and len(outs) > 1:
                        res += fsep
                    else:
                        res += seps[i]
            parts = [var, bt]
            if sep is not None or fsep is not None:
                parts.append(sep or '')
            if fsep is not None:
                parts.append(fsep)
            txt = '#FOR' + self.ints([st, pt, None if tv == 1 and not flags else tt, str(flags) if flags else None]) + self.many(parts, t[9])
            return txt, res
        if k == 'foreach':
            items = [self.S(x) for x in t[1]]
            var = t[2]
            bt, bo = self.S(t[3])
            sep, fsep = t[4], t[5]
            vals = [i[1] for i in items]
            outs = [self._subst_expand(t[3], var, v) for v in vals]
            if not outs:
                res = ''
            elif len(outs) == 1:
                res = outs[0]
            else:
                res = (sep or '').join(outs[:-1]) + (fsep if fsep is not None else (sep or '')) + outs[-1]
            parts = [var, bt]
            if sep is not None or fsep is not None:
                parts.append(sep or '')
            if fsep is not None:
                parts.append(fsep)
            # the input strings are given literally (their macro expansion happens after substitution)
            txt = '#FOREACH' + self.many([i[0] for i in items], t[6]) + self.many(parts, t[6])
            return txt, res
        if k == 'format':
            case = t[1]
            txt, out = '', ''
            for p in t[2]:
                if p[0] == 't':
                    lit = p[1].replace('{', '').replace('}', '')
                    txt += lit
                    out += lit
                elif p[0] == 'fd':
                    d = self.dicts.get(p[1])
                    if d is None or not d[0]:
                        raise Unsupported('no such string dict')
                    txt += '{%s[%d]}' % (p[1], p[2])
                    out += d[2].get(p[2], d[1])
                elif p[0] == 'b':
                    # a doubled brace is str.format's escape for a literal brace
                    txt += p[1] * 2
                    out += p[1]
                elif p[0] == 'f':
                    name, spec = p[1], p[2]
                    v = self.vars.get(name)
                    if v is None:
                        raise Unsupported('no var')
                    if isinstance(v, str) and spec:
                        # width/alignment of a string counts characters; a value holding characters that HTML mode
                        # stores as entities has no mode-independent width
                        if any(c in v for c in '&<>\'"#') or not spec.lstrip('*<>^0123456789.') == '':
                            raise Unsupported('spec on string')
                    txt += '{%s%s}' % (name, (':' + spec) if spec else '')
                    out += format(v, spec)
            if case == 1:
                out = out.lower()
            elif case == 2:
                out = out.upper()
            return '#FORMAT%s%s' % (str(case) if case or txt[:1].isdigit() or True else '', self.one(txt, t[3], True)), out
        if k == 'peeks':
            et, ev = self.E(t[1])
            return '#PEEK(%s)' % et, str(self.mem[ev & 65535])
        if k == 'chr':
            n, flags = t[1], t[2]
            m = ZX_CHARS.get(n, n) if flags & 2 else n
            return '#CHR(%d%s)' % (n, (',%d' % flags) if flags else ''), chr(m)
        if k == 'space':
            if t[1] is None:
                return '#SPACE()', ' '       # the bare form would swallow a digit that happens to follow it
            et, ev = self.E(t[1])
            if not 0 <= ev <= 40:
                raise Unsupported('space count')
            return '#SPACE(%s)' % et, ' ' * ev
        if k == 'str':
            addr, flags, length = t[1], t[2], t[3]
            endp = t[4] if t[4:] else None
            if not 0 <= addr <= 65535 or (length is not None and length >= 0 and addr + length > 65536):
                raise Unsupported('string outside the 64K address space')
            data = []
            if flags & 8 and endp is None:
                raise Unsupported('flag 8 without end parameter')
            if length is None or length < 0:
                a = addr
                while a < 65536:
                    b = self.mem[a]
                    if flags & 8:
                        op, n = endp
                        if (op == '==' and b == n) or (op == '>=' and b >= n) or (op == '&' and b & n) or (op == '<' and b < n):
                            break
                    elif b == 0:
                        break
                    elif b & 128:
                        data.append(b & 127)
                        break
                    data.append(b)
                    a += 1
                    if len(data) > 64:
                        raise Unsupported('unterminated string')
            else:
                data = list(self.mem[addr:addr + length])
            if any(b < 32 or b > 126 or b in (35, 38, 60, 62, 123, 125) for b in data):
                raise Unsupported('string bytes outside the mode-independent printable domain')
            s = ''.join(chr(ZX_CHARS.get(b, b)) for b in data)
            if flags & 1:
                s = s.rstrip()
            if flags & 2:
                s = s.lstrip()
            # flags & 4: runs of spaces become #SPACE(N), whose expansion is N spaces again (modulo the HTML entity)
            args = str(addr)
            if flags or length is not None:
                args += ',%d' % flags
            if length is not None:
                args += ',%d' % length
            txt = '#STR(%s)' % args      # always parenthesised: the bare form swallows a comma or digit that happens to follow it
            if flags & 8 and (length is None or length < 0):
                txt += '($b%s%d)' % (endp[0], endp[1])
            return txt, s
        if k == 'pc':
            return '#PC', str(self.pc)
        if k == 'svar':
            v = self.vars.get(t[1])
            if not isinstance(v, str):
                raise Unsupported('no such string var')
            return '#FORMAT0(%s)' % ('{%s}' % t[1]), v
        if k == 'hash':
            st, so = self.S(t[1])
            return st, so
        if k == 'call':
            d = self.defs.get(t[1])
            if d is None:
                raise Unsupported('undefined macro')
            return self._call(d, t)
        if k == 'while':
            # #LET(w=n)#WHILE({w}>0)(body #LET(w={w}-1))
            name, n = t[1], t[2]
            if not 0 <= n <= 6:
                raise Unsupported('while count')
            bt, _ = self.S(t[3])
            txt = '#LET(%s=%d)#WHILE({%s}>0)(%s#LET(%s={%s}-1))' % (name, n, name, bt, name, name)
            out = ''
            self.vars[name] = n
            while self.vars[name] > 0:
                o = self._expand_tree(t[3])
                if o != o.strip() and _makes_spaces(t[3]):
                    # documented mode dependence: #SPACE is spaces in ASM mode and &#160; references in HTML mode, and
                    # #WHILE strips whitespace (only) from each expansion of its body
                    raise Unsupported('#SPACE output at the edge of a #WHILE body')
                out += o.strip()
                self.vars[name] -= 1
            return txt, out
        raise ValueError(t)

    def _expand_tree(self, t):
        return self.S(t)[1]

    def _subst_expand(self, body, var, value):
        """Expansion of `body` after every occurrence of `var` in its text has been replaced by `value`.
        Bodies are generated so that `var` occurs only where a plain literal would be valid: in text
        and as an operand of an integer expression ('lit' nodes carrying the marker)."""
        return self.S(_subst_tree(body, var, value))[1]

    def _call(self, d, t):
        name, flags, iparams, sparams, body = d
        ints = t[2]
        strs = t[3]
        ivals = {}
        itexts = []
        for i, (iname, idef) in enumerate(iparams):
            if i < len(ints) and ints[i] is not None:
                et, ev = self.E(ints[i])
                itexts.append(et)
                ivals[iname] = ev
            else:
                if idef is None:
                    raise Unsupported('missing required int arg')
                itexts.append(None)
                ivals[iname] = idef
        txt = '#' + name
        if iparams:
            txt += self.ints(itexts)
        svals = {}
        if sparams:
            given = []
            for i, (sname, sdef) in enumerate(sparams):
                if i < len(strs) and strs[i] is not None:
                    st, so = self.S(strs[i])
                    given.append(st)
                    svals[sname] = st          # the argument text is substituted, then expanded with the body
                else:
                    if sdef is None:
                        raise Unsupported('missing required string arg')
                    svals[sname] = _fill(sdef, ivals, flags)
            if given:
                if len(given) != len([1 for i in range(len(sparams)) if i < len(strs) and strs[i] is not None]) or any(strs[i] is None for i in range(len(given))):
                    raise Unsupported('gap in string args')
                txt += self.many(given, '(') if len(sparams) > 1 else self.one(given[0], '(')
            elif any(sd is None for _, sd in sparams):
                raise Unsupported('missing string args')
        vals = dict(ivals)
        vals.update(svals)
        filled = _fill(body, vals, flags)
        out = self._expand_text_tree(filled)
        if flags & 2:
            out = out.strip()
        return txt, out

    def _expand_text_tree(self, parts):
        """`parts` is a body-part list after argument substitution: [('t', text) | ('tree', tree)]"""
        out = ''
        for p in parts:
            if p[0] == 't':
                out += p[1]
            else:
                out += self.S(p[1])[1]
        return out

    # -- state changes ----------------------------------------------------------------------
    def apply(self, t):
        """Render and apply one history step.  -> (text, expected expansion)"""
        k = t[0]
        if k == 'let':
            et, ev = self.E(t[2])
            if t[1] in ('base', 'case'):
                self.flds[t[1]] = ev          # changes the replacement field only; the writer's mode is unchanged
            elif t[1] in ('html', 'asm', 'fix'):
                pass                          # mode-dependent fields are never read by generated terms
            else:
                self.vars[t[1]] = ev
            return '#LET(%s=%s)' % (t[1], et), ''
        if k == 'lets':
            st, so = self.S(t[2])
            if '{' in so or '}' in so:
                raise Unsupported('braces in string value')
            if '#CHR' in st or '#SPACE' in st or _makes_spaces(t[2]):
                # documented mode dependence: in HTML mode these expand to character references, which a later
                # #FORMAT case/width operation treats differently from the character itself
                raise Unsupported('character references stored in a variable')
            self.vars[t[1]] = so
            return '#LET%s' % self.one('%s=%s' % (t[1], st), t[3] if t[3:] else '('), ''
        if k == 'letd':
            name, isstr, default, pairs = t[1:5]
            d = {}
            parts = [str(default)]
            for key, val in pairs:
                d[key] = val
                parts.append('%d:%s' % (key, val) if val != key or isstr else (str(key) if t[5:] and t[5] else '%d:%s' % (key, val)))
            self.dicts[name] = (isstr, default, d)
            return '#LET(%s[]=(%s))' % (name, ','.join(parts)), ''
        if k == 'letk':
            name, isstr, key, value = t[1:5]
            d = self.dicts.get(name)
            if d is None or d[0] != isstr:
                raise Unsupported('no such dict')
            kt, kv = self.E(key)
            if kv < 0:
                raise Unsupported('a negative key cannot be read back through a replacement field')
            if '=' in kt or ']' in kt:
                raise Unsupported("'=' or ']' in a dictionary key expression makes name[key]=value ambiguous")
            if isstr:
                if isinstance(value, list):
                    # a reading term as the value (same exclusions as for a plain string variable)
                    vt, vo = self.S(value)
                    if '{' in vo or '}' in vo or '#CHR' in vt or '#SPACE' in vt or _makes_spaces(value) or not balanced(vt):
                        raise Unsupported('dictionary string value outside the mode-independent domain')
                else:
                    vt, vo = value, value
            else:
                vt, vo = self.E(value)
            d[2][kv] = vo
            return '#LET(%s[%s]=%s)' % (name, kt, vt), ''
        if k == 'pokes':
            specs = []
            for addr, byte, length, step in t[1]:
                if not (0 <= addr and addr + (length - 1) * step < 65536 and 0 <= byte < 256 and length >= 1 and step >= 1):
                    raise Unsupported('poke domain')
                for i in range(length):
                    self.mem[addr + i * step] = byte
                    self.touched.add(addr + i * step)
                self.pokes[self.names[-1]].append((addr, byte, length, step))
                spec = [str(addr), str(byte)]
                if length != 1 or step != 1:
                    spec.append(str(length))
                if step != 1:
                    spec.append(str(step))
                specs.append(','.join(spec))
            return '#POKES' + ';'.join(specs), ''
        if k == 'pushs':
            self.stack.append(bytes(self.mem))
            self.names.append(t[1])
            self.pokes[t[1]] = []
            return '#PUSHS' + t[1], ''
        if k == 'pops':
            if not self.stack:
                raise Unsupported('empty stack')
            self.mem[:] = self.stack.pop()
            self.names.pop()
            return '#POPS', ''
        if k == 'def':
            name, flags, iparams, sparams, body = t[1:6]
            sig = ''
            if iparams or sparams:
                sig += '(%s)' % ','.join(n if d is None else '%s=%d' % (n, d) for n, d in iparams)
            if sparams:
                sig += '(%s)' % ','.join(n if d is None else '%s=%s' % (n, _render_default(d, flags)) for n, d in sparams)
            body = [list(p) for p in body]
            if body and body[0][0] == 't':
                body[0][1] = body[0][1].lstrip()
            if body and body[-1][0] == 't':
                body[-1][1] = body[-1][1].rstrip()
            body = [p for p in body if p[0] != 't' or p[1]]
            if not body:
                raise Unsupported('empty body')
            btxt = _render_body(body, flags)
            self.defs[name] = (name, flags, iparams, sparams, body)
            return '#DEF%s(#%s%s %s)' % (str(flags) if flags else '', name, sig, btxt), ''
        # reading term
        return self.S(t)

def _makes_spaces(t):
    """Does the term contain #SPACE, or a #STR whose flags make it emit #SPACE?"""
    if isinstance(t, list):
        if t and t[0] == 'space':
            return True
        if t and t[0] == 'str' and t[2] & 4:
            return True
        return any(_makes_spaces(x) for x in t)
    return False

def _subst_tree(t, var, value):
    if isinstance(t, list):
        if t and t[0] == 't':
            return ['t', t[1].replace(var, value)]
        if t and t[0] == 'lit' and t[2:] and t[2] == 'v' and t[1] == var:
            return ['lit', int(value), 'd']
        return [_subst_tree(x, var, value) for x in t]
    return t

def _render_body(body, flags):
    """body: list of ['t', text] | ['a', argname] | ['ev', argname] (#EVAL($a*2))"""
    out = ''
    for i, p in enumerate(body):
        if p[0] == 't':
            out += p[1].replace('{', '').replace('}', '').replace('$', '') if True else p[1]
        elif p[0] == 'a':
            nxt = body[i + 1] if i + 1 < len(body) else None
            glued = nxt is not None and nxt[0] == 't' and nxt[1][:1] and (nxt[1][0].isalnum() or nxt[1][0] == '_')
            out += ('{%s}' % p[1]) if flags & 1 else ('${%s}' % p[1] if (p[2:] and p[2]) or glued else '$%s' % p[1])
        elif p[0] == 'ev':
            ref = ('{%s}' % p[1]) if flags & 1 else '$%s' % p[1]
            out += '#EVAL(%s%s)' % (ref, p[2])
    return out

def _render_default(d, flags):
    return _render_body(d, flags)

def _fill(body, vals, flags):
    """-> list of ('t', text) | ('tree', tree) after substituting argument values"""
    parts = []
    for p in body:
        if p[0] == 't':
            parts.append(('t', p[1].replace('{', '').replace('}', '').replace('$', '')))
        elif p[0] == 'a':
            v = vals[p[1]]
            if isinstance(v, list):
                parts.extend(v)
            else:
                parts.append(('t', str(v)))
        elif p[0] == 'ev':
            v = vals[p[1]]
            if not isinstance(v, int):
                raise Unsupported('ev on string arg')
            # $a followed by an operator suffix such as '*2' or '+1'
            parts.append(('t', str(_eval_suffix(v, p[2]))))
    return parts

def _eval_suffix(v, suffix):
    op, n = suffix[0], int(suffix[1:])
    if v < 0:
        raise Unsupported('negative in template arithmetic')
    return {'+': v + n, '*': v * n, '-': v - n}[op]

# ---------------------------------------------------------------------------
# generation

class Gen:
    def __init__(self, rng, model):
        if not hasattr(model, 'strings'):
            model.strings = []
        self.strings = model.strings
        self.rng = rng
        self.m = model

    def lit(self, lo=0, hi=65535):
        r = self.rng
        n = r.choice((0, 1, 2, 7, 8, 15, 16, 255, 256, 32768, 65535, r.randrange(lo, hi + 1), r.randrange(lo, min(hi, 300) + 1)))
        n = max(lo, min(hi, n))
        return ['lit', n, r.choice('ddh')]

    def addr(self):
        r = self.rng
        if self.m.touched and r.random() < 0.5:
            return ['lit', r.choice(sorted(self.m.touched)), r.choice('dh')]
        return ['lit', r.choice((32768, 32769, 32770, 32780, 40000, 65535, 0, 16384, r.randrange(65536))), r.choice('dh')]

    def E(self, depth):
        r = self.rng
        k = r.random()
        if depth <= 0 or k < 0.3:
            ints = [n for n, v in self.m.vars.items() if isinstance(v, int)]
            if ints and r.random() < 0.4:
                return ['var', r.choice(ints)]
            idicts = [n for n, d in self.m.dicts.items() if not d[0]]
            if idicts and r.random() < 0.3:
                n = r.choice(idicts)
                keys = list(self.m.dicts[n][2]) + [r.randrange(0, 20)]
                return ['dget', n, r.choice(keys)]
            if r.random() < 0.08:
                return ['fld', r.choice(('base', 'case')), r.random() < 0.5]
            if r.random() < 0.04:
                return ['vars', r.choice(('foo', 'bar'))]
            return self.lit(0, r.choice((9, 255, 65535)))
        if k < 0.7:
            op = r.choice(OPS)
            a = self.E(depth - 1)
            if op in ('>>', '<<'):
                b = ['lit', r.randrange(0, 9), 'd']
            elif op == '**':
                a = ['lit', r.randrange(0, 12), 'd']
                b = ['lit', r.randrange(0, 4), 'd']
            elif op in ('/', '%'):
                b = ['lit', r.choice((1, 2, 3, 7, 8, 10, 16, 256, r.randrange(1, 1000))), r.choice('dh')]
            else:
                b = self.E(depth - 1)
            return ['bin', op, a, b, r.random() < 0.2]
        if k < 0.85:
            return ['peek', self.addr() if r.random() < 0.7 else self.E(depth - 1)]
        if k < 0.92:
            return ['evali', self.E(depth - 1)]
        if k < 0.96:
            return ['ifi', self.C(depth - 1), self.E(depth - 1), self.E(depth - 1), r.choice('(([{{')]
        return ['mapi', self.E(depth - 1) if r.random() < 0.5 else ['lit', r.randrange(0, 5), 'd'], r.randrange(0, 100),
                [[kk, r.randrange(0, 1000)] for kk in sorted(r.sample(range(6), r.randrange(0, 4)))], r.choice('([{{')]

    def C(self, depth):
        r = self.rng
        k = r.random()
        if depth <= 0 or k < 0.6:
            return ['cmp', r.choice(CMPS), self.E(max(0, depth - 1)), self.E(max(0, depth - 1))]
        if k < 0.75:
            return ['truth', self.E(depth - 1)]
        return [r.choice(('and', 'or')), self.C(depth - 1), self.C(depth - 1), r.random() < 0.5]

    def text(self, lo=0, hi=8, alphabet=None):
        r = self.rng
        alphabet = alphabet or SAFE_TEXT
        return ''.join(r.choice(alphabet) for _ in range(r.randrange(lo, hi + 1)))

    def delim(self, multi=False):
        r = self.rng
        if multi:
            return r.choice(('(', '(', '(', '[', '{', '//', '||', '| ', '/ ', '@@', '!:'))
        return r.choice(('(', '(', '[', '{', '/', '|', '!', '@'))

    def str_term(self):
        r = self.rng
        addr, n, term, last = r.choice(self.strings)
        flags = r.choice((0, 0, 1, 2, 3, 4, 5, 7))
        paren = r.random() < 0.3
        c = r.random()
        if term == 'marker' or c < 0.15:
            endp = ['==', last] if term == 'marker' else r.choice((['==', 0], ['>=', 128], ['&', 128], ['<', 32]))
            return ['str', addr, flags | 8, None, endp, paren]
        if c < 0.4:
            return ['str', addr + r.randrange(0, 2), flags, r.choice((n, n, max(0, n - 1), 1, 0)), None, paren]
        return ['str', addr, flags, r.choice((None, None, -1)), None, paren]

    def S(self, depth, var=None, numeric=True):
        """A reading term.  If `var` is given, occurrences of the loop variable are planted."""
        r = self.rng
        if self.strings and r.random() < 0.12:
            return self.str_term()
        k = r.random()
        if depth <= 0 or k < 0.15:
            t = self.text(0, 6, 'abcdefghijklm ABC0123456789.:;!?_-+*=<>&\'"<&')
            if var and r.random() < 0.7:
                t += var + self.text(0, 2, 'xyz .')
            return ['t', t]
        if k < 0.3:
            e = self.E(depth - 1)
            if var and numeric and r.random() < 0.6:
                e = ['bin', r.choice('+*-'), ['lit', var, 'v'], self.lit(0, 9), False] if r.random() < 0.7 else ['lit', var, 'v']
            return ['eval', e, r.choice((10, 10, 16, 2)), r.choice((1, 1, 2, 4, 8)), 'paren']
        if k < 0.4:
            affix = r.random() < 0.4
            return ['n', self.E(depth - 1) if r.random() < 0.7 else self.lit(), r.choice((None, None, 1, 2, 4, 6)), r.choice((None, None, 1, 3, 5)), affix, r.random() < 0.5,
                    self.text(0, 2, '$#0x') .replace('#', '') if affix else '', (r.choice((None, 'h', 'H'))) if affix else None]
        if k < 0.52:
            return ['if', self.C(depth - 1), self.S(depth - 1, var, numeric), self.S(depth - 1, var, numeric) if r.random() < 0.75 else None, self.delim(True)]
        if k < 0.6:
            pairs = [[r.randrange(0, 6), self.S(depth - 1, var, numeric)] for _ in range(r.randrange(0, 4))]
            return ['map', self.E(depth - 1) if r.random() < 0.5 else ['lit', r.randrange(0, 6), 'd'], self.S(depth - 1, var, numeric), pairs, self.delim(True)]
        if k < 0.72 and var is None:
            v = r.choice(('q', 'jj', '$i', 'zz'))
            start = ['lit', r.randrange(0, 6), 'd']
            step = ['lit', r.choice((1, 1, 1, 2, 3, -1, -2)), 'd']
            stop = ['lit', start[1] + step[1] * r.randrange(0, 5), 'd']
            sep = r.choice((None, ', ', ';', ' ', '-', v + '/', ' & ', '<', ' > '))
            fsep = r.choice((None, None, ' and ', '|', '', ' & ', '<>')) if sep is not None else None
            return ['for', start, stop, step, r.choice((0, 0, 0, 1, 2, 3, 4, 7)), v, self.S(depth - 1, v), sep, fsep, self.delim(True)]
        if k < 0.8 and var is None:
            v = r.choice(('q', 'jj', '$s', 'zz'))
            items = [['t', self.text(1, 3, 'abcdefg12345' if r.random() < 0.7 else 'ab12<>&')] for _ in range(r.randrange(1, 5))]
            sep = r.choice((None, ', ', ';', ' ', '-', ' & ', '<'))
            fsep = r.choice((None, None, ' and ', '', '', ' & ', '>')) if sep is not None else None
            return ['foreach', items, v, self.S(depth - 1, v, False), sep, fsep, self.delim(True)]
        if k < 0.86:
            names = list(self.m.vars)
            parts = []
            for _ in range(r.randrange(1, 4)):
                if names and r.random() < 0.7:
                    n = r.choice(names)
                    if isinstance(self.m.vars[n], str):
                        spec = r.choice(('', '', '', '<6', '>5', '^7', '*<4', '8', '.2'))
                    else:
                        spec = r.choice(('', '04X', '02x', '5', '08b', 'd', '03', '<5', '>6', '^7', '*<4', '0>4', '<4X', '>06x', '*^9b'))
                    parts.append(['f', n, spec])
                elif r.random() < 0.25:
                    parts.append(['b', r.choice('{}}')])
                elif r.random() < 0.4 and any(d[0] for d in self.m.dicts.values()):
                    n = r.choice(sorted(n for n, d in self.m.dicts.items() if d[0]))
                    parts.append(['fd', n, r.choice(list(self.m.dicts[n][2]) + [r.randrange(0, 12)])])
                else:
                    parts.append(['t', self.text(1, 4, 'abc XYZ09.:-')])
            return ['format', r.choice((0, 0, 1, 2)), parts, self.delim()]
        if k < 0.9:
            return ['peeks', self.addr()]
        if k < 0.93:
            return r.choice((['chr', r.choice((65, 66, 97, 126, 163, 169, 255, 8593, r.randrange(33, 127))), r.choice((0, 0, 1))], ['chr', r.choice((94, 96, 127, 65)), r.choice((2, 3))]))
        if k < 0.96:
            return ['space', None if r.random() < 0.3 else ['lit', r.randrange(0, 6), 'd'], r.random() < 0.5]
        if k < 0.97:
            if self.strings and r.random() < 0.5:
                return self.str_term()
            return ['pc']
        if False:
            if True:
                addr, n, term, last = r.choice(self.strings)
                flags = r.choice((0, 0, 1, 2, 3, 4, 5, 7))
                paren = r.random() < 0.3
                c = r.random()
                if term == 'marker' or c < 0.15:
                    endp = ['==', last] if term == 'marker' else r.choice((['==', 0], ['>=', 128], ['&', 128], ['<', 32]))
                    return ['str', addr, flags | 8, None, endp, paren]
                if c < 0.4:
                    return ['str', addr + r.randrange(0, 2), flags, r.choice((n, n, max(0, n - 1), 1, 0)), None, paren]
                return ['str', addr, flags, r.choice((None, None, -1)), None, paren]
            return ['pc']
        if k < 0.985 and self.m.defs and var is None:
            name = r.choice(sorted(self.m.defs))
            d = self.m.defs[name]
            ints = [self.lit(0, 999) if (idef is None or r.random() < 0.6) else None for _, idef in d[2]]
            strs = []
            for _, sdef in d[3]:
                if sdef is None or r.random() < 0.5:
                    strs.append(['t', self.text(1, 4, 'abcXYZ09')])
                else:
                    break
            return ['call', name, ints, strs]
        svars = [n for n, v in self.m.vars.items() if isinstance(v, str)]
        if svars:
            return ['svar', r.choice(svars)]
        return ['t', self.text(1, 5)]

    def step(self, depth=3):
        """One history step: a state change or a reading term."""
        r = self.rng
        k = r.random()
        m = self.m
        if k < 0.04:
            # the documentation lets #LET change the asm/base/case/fix/html fields; the true mode stays in {mode[...]}
            return ['let', r.choice(('html', 'html', 'asm', 'fix', 'base', 'case')), ['lit', r.choice((0, 1, 2, 10, 16)), 'd']]
        if k < 0.14:
            return ['let', r.choice(('a', 'b', 'count', 'x1', 'w')), self.E(depth - 1)]
        if k < 0.2:
            return ['lets', r.choice(('s$', 'name$', 't$')), self.S(depth - 2), self.delim()]
        if k < 0.25:
            isstr = r.random() < 0.4
            name = r.choice(('d', 'm')) + ('$' if isstr else '')
            pairs = []
            for _ in range(r.randrange(0, 4)):
                key = r.randrange(0, 12)
                pairs.append([key, self.text(1, 3, 'abcxyz') if isstr else r.randrange(0, 1000)])
            return ['letd', name, isstr, self.text(1, 2, '?-z') if isstr else r.randrange(0, 100), pairs, r.random() < 0.3]
        if k < 0.29 and m.dicts:
            name = r.choice(sorted(m.dicts))
            isstr = m.dicts[name][0]
            if isstr:
                c = r.random()
                if c < 0.4:
                    val = self.text(1, 3, 'abcxyz')
                elif c < 0.75:
                    val = ' ' * r.randrange(0, 3) + self.text(1, 3, 'abcxyz') + ' ' * r.randrange(0, 3)      # edge whitespace is part of the value
                else:
                    val = self.S(depth - 2)
            else:
                val = self.E(depth - 2)
            return ['letk', name, isstr, self.E(1) if r.random() < 0.5 else ['lit', r.randrange(0, 12), 'd'], val]
        if k < 0.33:
            # plant a string for #STR: text + terminator (zero byte, bit 7 on the last character, or a marker byte)
            txt = self.text(1, 7, 'abcdefgh  XYZ 0123.:;!?_-+*=^`')
            if r.random() < 0.3:
                txt = ' ' * r.randrange(0, 3) + txt + ' ' * r.randrange(0, 4)
            term = r.choice(('zero', 'zero', 'bit7', 'marker', 'none'))
            data = [ord(c) for c in txt]
            if r.random() < 0.15:
                data[r.randrange(len(data))] = 127
            if term == 'zero':
                data.append(0)
            elif term == 'bit7':
                data[-1] |= 128
            elif term == 'marker':
                data.append(r.choice((255, 128, 13, 1)))
            addr = r.choice((33000, 49152 - len(data) // 2, 65536 - len(data), r.randrange(16384, 65536 - len(data))))
            self.strings.append((addr, len(txt), term, data[-1]))
            return ['pokes', [[addr + i, b, 1, 1] for i, b in enumerate(data)]]
        if k < 0.4:
            specs = []
            for _ in range(r.choice((1, 1, 2, 3))):
                length = r.choice((1, 1, 1, 2, 3, 8))
                step = r.choice((1, 1, 1, 2, 256)) if length > 1 else 1
                addr = r.choice((32768, 32770, 40000, 65535 - (length - 1) * step, r.randrange(0, 65536 - (length - 1) * step)))
                specs.append([addr, r.randrange(256), length, step])
            return ['pokes', specs]
        if k < 0.45:
            return ['pushs', r.choice(('', '', 'one', 'p2', 'x$'))]
        if k < 0.5 and m.stack:
            return ['pops']
        if k < 0.56:
            flags = r.choice((0, 0, 1, 2, 3))
            name = r.choice(('MIN', 'TWICE', 'WRAP', 'ZED'))
            ni = r.randrange(0, 3)
            iparams = []
            have_default = False
            for i in range(ni):
                dflt = r.randrange(0, 50) if (have_default or r.random() < 0.4) else None
                have_default = have_default or dflt is not None
                iparams.append(['ia'[0] + 'abc'[i], dflt])
            sparams = []
            if r.random() < 0.4:
                sparams.append(['s', None if r.random() < 0.5 else [['t', self.text(1, 3, 'abcxyz')]]])
            body = []
            for _ in range(r.randrange(1, 4)):
                c = r.random()
                if c < 0.35 or not (iparams or sparams):
                    body.append(['t', self.text(1, 4, 'abcxyz .:-[]')])
                elif c < 0.7 and iparams:
                    body.append(['ev', r.choice(iparams)[0], r.choice(('+1', '*2', '+10'))])
                else:
                    body.append(['a', r.choice(iparams + sparams)[0], r.random() < 0.3])
            return ['def', name, flags, iparams, sparams, body]
        if k < 0.6:
            return ['while', 'w', r.randrange(0, 5), self.S(1)]
        if k < 0.64:
            # top level only: a state change nested inside a numeric parameter, read by a field later in the same parameter
            name = r.choice(('a', 'b', 'count', 'x1'))
            e2 = ['bin', r.choice('+*-'), ['var', name], self.E(depth - 2), False]
            return ['eval', e2, r.choice((10, 10, 16)), r.choice((1, 1, 4)), 'paren', ['let', name, self.lit(0, 999)]]
        return self.S(depth)
