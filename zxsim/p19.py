"""C19 - contention simulation only ever adds the delays the ULA would impose.

Plain and contended replicas of the same language start from the same state at seeded frame
positions; per step: same registers/memory/ports (T, MEMPTR and MEMPTR-dependent bits 3/5 of F aside),
never fewer T-states, and extra delay == RefULA folded over RefZ80's bus-cycle list.
"""
import hashlib

from . import gen_lock, lockstep, frames
from .harness import new_result, fail, bump

PROP = 'C19'
RUNS = {'quick': 40000, 'thorough': 2000000}
BUDGET_S = {'quick': 150, 'thorough': 2400}
CHUNK = 100
PROPS = {'C19'}
REPLICAS = ['py', 'pycmio', 'c', 'ccmio']

def init():
    lockstep.init()

N_FRAMES = {'quick': 700, 'thorough': frames.total('thorough')}

def gen(rng, tier, index):
    # frame sweeps first: the edges of the contended part of the frame for every template and variant (both tiers), then
    # whole-frame chunks: thorough enumerates every (template, variant, chunk); quick draws a seeded subset
    if index < frames.n_edge():
        return frames.edge_scenario(index)
    index -= frames.n_edge()
    if index < N_FRAMES[tier]:
        k = index if tier == 'thorough' else rng.randrange(frames.total(tier))
        return frames.scenario(k)
    index -= N_FRAMES[tier]
    if index % 8 < 7:
        scn = gen_lock.gen_wstep(rng, tier, index // 8 * 7 + index % 8, REPLICAS)
    else:
        scn = gen_lock.gen_wprog(rng, tier, index, REPLICAS)
    if scn['machine'] != '48K':
        scn['tracer']['present'] = True
    return scn

def run(scn):
    res = new_result()
    sigs = set()
    try:
        if scn['kind'] == 'frames':
            lockstep.run_c19_frames(scn, res['stats'], sigs)
        else:
            lockstep.run_c19(scn, res['stats'], sigs)
    except lockstep.Violation as v:
        return fail(res, v.vclass, v.detail)
    frame = 69888 if scn['machine'] == '48K' else 70908
    res['sigs'] = ['%s%02X|%s|%d' % (g, op, scn['machine'] == '48K', ph) for ((g, op), ph) in sigs]
    res['digest'] = hashlib.sha256(repr(sorted(res['stats'].items())).encode()).hexdigest()
    return res

def sample(scn, res):
    if scn['kind'] == 'frames':
        return scn
    frame = 69888 if scn['machine'] == '48K' else 70908
    return {'kind': scn['kind'], 'machine': scn['machine'], 'slot': scn.get('slot'), 'steps': scn['steps'], 'frame_T': scn['regs'][25] % frame,
            'o7ffd': scn['mem'].get('o7ffd'), 'regs': scn['regs'], 'patches': scn['mem']['patches'][-1:]}

def shrink_candidates(scn):
    if scn['kind'] == 'frames':
        yield from frames.shrink(scn)
        return
    yield from gen_lock.shrink_candidates(scn)

def describe():
    return {
        'rule': 'per executed instruction: plain vs contended twin (registers, memory, ports) and contended delta-T minus plain delta-T == RefULA.total_delay(T0 mod frame, RefZ80 bus cycles). Frame sweeps (frames.py): each of 214 instruction templates at every T-state of the frame on 6 machine variants (all 41088 chunks in the thorough tier, a seeded subset of 1600 in the quick tier). Distinct = distinct (dispatch slot, 48K/128K, T0 mod 8) triples.',
        'assumptions': ['RefZ80 bus-cycle lists follow the published per-instruction breakdown (pc:4, pc+1:3, ir:1, hl:3 ...); RefULA follows the published 6,5,4,3,2,1,0,0 pattern and I/O patterns',
                        'interrupt acceptance adds 13/19 T with no contention (SkoolKit convention, checked as such)',
                        'bits 3/5 of F are not compared between plain and contended engines (MEMPTR-dependent)'],
        'components': {'real': ['CMIOSimulator', 'CCMIOSimulator', 'Simulator', 'CSimulator'], 'reference': ['RefZ80 cycles', 'RefULA'], 'harness': ['World tracer', 'generators']},
        'probes': ['contended_delay_nonzero'],
        'design_ref': 'DESIGN.md section 5, C19',
    }
