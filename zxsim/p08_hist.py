"""C08 workload B - pager histories on every copy of the paging logic, next to RefPaging.

A history is a list of operations executed through real instructions by a real simulator whose I/O seam is
one of the seven hand-copied 0x7FFD decoders (six Python tracers + the C OUT macro).  After every
operation the visible ROM/banks are observed through executed loads (so the C side's private pointers are
observed, not read), all eight physical banks are compared with the model, and the three copies of the
paging latch (Memory.o7ffd, tracer.out7ffd, the C pointers) must agree.

A second machine drives the skool-file memory model (skoolutils.Memory: bank, out7ffd, copy, slices,
convert, #BANK/#PUSHS/#POKES/#POPS through a real AsmWriter).
"""
import hashlib
import json
import os
import random
import shutil

from . import build, prng
from .harness import new_result, fail, bump

COPIES = ('paging', 'paging-border', 'trace', 'trace-fe', 'rzx', 'macro', 'audio128')
ENGINES = ('py', 'c', 'pycmio', 'ccmio')
CODE = 0x8000        # driver code lives in bank 2, which is never paged out

_cls = {}

def init():
    global pagingtracer, trace, rzxplay, skoolmacro, skoolutils, simutils, snapshot_mod, roms
    import skoolkit
    from skoolkit import pagingtracer, trace, rzxplay, skoolmacro, skoolutils, simutils, simulator, cmiosimulator
    from skoolkit import snapshot as snapshot_mod
    _cls.update({'py': simulator.Simulator, 'c': skoolkit.CSimulator, 'pycmio': cmiosimulator.CMIOSimulator, 'ccmio': skoolkit.CCMIOSimulator})
    res = os.path.join(os.path.dirname(skoolkit.__file__), 'resources')
    roms = [open(os.path.join(res, n), 'rb').read() for n in ('128-0.rom', '128-1.rom')]

class RefPaging:
    def __init__(self, banks, o7ffd):
        self.banks = [bytearray(b) for b in banks]
        self.o7ffd = o7ffd

    def out(self, port, value):
        if port & 0x8002 == 0 and not self.o7ffd & 0x20:
            self.o7ffd = value & 0xFF
            return True
        return False

    def peek(self, a):
        seg = a >> 14
        if seg == 0:
            return roms[(self.o7ffd >> 4) & 1][a]
        return (self.banks[5], self.banks[2], self.banks[self.o7ffd & 7])[seg - 1][a & 0x3FFF]

    def poke(self, a, v):
        seg = a >> 14
        if seg:
            (self.banks[5], self.banks[2], self.banks[self.o7ffd & 7])[seg - 1][a & 0x3FFF] = v

def gen_banks(rng, equal):
    if equal:
        return [{'fill': 0} for _ in range(8)]
    return [{'mark': rng.randrange(256)} for _ in range(8)]

def bank_bytes(spec, k):
    if 'fill' in spec:
        return bytes([spec['fill']]) * 0x4000
    m = spec['mark']
    return bytes(((m + k * 37 + i * 7 + (i >> 8)) & 0xFF) for i in range(0x4000))

PORTS_HIT = (0x7FFD, 0x7FFD, 0x0000, 0x00FD, 0x3FFD, 0x7DFC, 0x1234 & 0x7FFD, 0x5555 & 0x7FFD, 0x7FF9)
PORTS_MISS = (0xFFFD, 0xBFFD, 0x7FFF, 0x7FFE | 2, 0x8000, 0xFFFF, 0x00FE | 2, 0x8001, 0xFFFC, 0x0002)

def gen_sim(rng, tier, index):
    n = rng.choice((1, 2, 3, 5, 8, 13, 30))
    ops = []
    for _ in range(n):
        r = rng.random()
        if r < 0.45:
            port = rng.choice(PORTS_HIT) if rng.random() < 0.7 else rng.choice(PORTS_MISS)
            if rng.random() < 0.15:
                port = rng.randrange(0x10000)
            v = rng.choice((rng.randrange(8), 0x10 | rng.randrange(8), rng.randrange(32), 0x20 | rng.randrange(32), rng.randrange(256)))
            ops.append(['out', port, v, rng.choice(('c', 'c', 'n', 'outi', 'c0'))])
        elif r < 0.75:
            a = rng.choice((rng.randrange(0x10000), rng.choice((0x0000, 0x3FFF, 0x4000, 0x7FFF, 0xBFFF, 0xC000, 0xC001, 0xFFFF, 0xFFFE)), rng.randrange(0xC000, 0x10000)))
            ops.append(['poke', a, rng.randrange(256), rng.choice(('a', 'hl', 'push', 'ldir', 'w'))])
        elif r < 0.9:
            ops.append(['peek', rng.choice((rng.randrange(0x10000), rng.randrange(0xC000, 0x10000), rng.randrange(0x4000)))])
        else:
            ops.append(['restart', rng.choice(('szx', 'z80'))])
    return {'kind': 'pager-sim', 'copy': COPIES[index % len(COPIES)], 'engine': ENGINES[(index // len(COPIES)) % 4], 'machine': rng.choice(('128K', '+2')),
            'o7ffd': rng.choice((0, 0, 1, 7, 16, 23, rng.randrange(32))), 'banks': gen_banks(rng, rng.random() < 0.3), 'ops': ops}

# -- building the system under test --------------------------------------------------------

class _Obj:
    pass

def make_tracer(copy, sim, o7ffd, outfffd=0, ay=None, border=0, outfe=0):
    ay = list(ay or [0] * 16)
    if copy in ('paging', 'paging-border'):
        class T(pagingtracer.PagingTracer):
            pass
        t = T()
        t.simulator = sim
        t.out7ffd, t.outfffd, t.ay, t.outfe = o7ffd, outfffd, ay, outfe
        if copy == 'paging-border':
            t.border = [(0, border)]
            t.frame_duration = sim.frame_duration
            t.write_port = t.write_port_with_border_list
        else:
            t.border = border
        return t
    if copy in ('trace', 'trace-fe'):
        return trace.Tracer(sim, border, o7ffd, outfffd, ay, outfe, copy == 'trace-fe')
    if copy == 'rzx':
        ctx = _Obj()
        ctx.simulator = sim
        ctx.frame_count = 0
        ctx.snapshot = _Obj()
        ctx.snapshot.border, ctx.snapshot.out7ffd, ctx.snapshot.outfffd, ctx.snapshot.ay, ctx.snapshot.outfe = border, o7ffd, outfffd, tuple(ay), outfe
        rec = rzxplay.InputRecording(sim.registers[25], [], b'')
        return rzxplay.RZXTracer(ctx, rec)
    if copy == 'macro':
        return skoolmacro.PagingTracer(sim.memory, o7ffd, outfffd, ay)
    if copy == 'audio128':
        return skoolmacro.AudioTracer128(sim.memory, o7ffd, outfffd, ay)
    raise ValueError(copy)

def make_system(scn, banks, o7ffd, regs=None, outfffd=0, ay=None):
    cls = _cls[scn['engine']]
    if scn['copy'] in ('macro', 'audio128'):
        # the macros run simulators on the skool-file memory model
        mem = skoolutils.Memory([list(b) for b in banks], None, None, None, 0)
        mem.memory[0] = mem.roms[0]
        mem.out7ffd(o7ffd)
    else:
        mem = pagingtracer.Memory([list(b) for b in banks], o7ffd, scn['machine'])
    sim = simutils.from_memory(cls, mem, {'SP': 0xBF00}, {'iff': 0, 'tstates': 0})
    tr = make_tracer(scn['copy'], sim, o7ffd, outfffd, ay)
    sim.set_tracer(tr)
    return sim, tr

def word(n):
    return [n & 0xFF, (n >> 8) & 0xFF]

def run_code(sim, code):
    mem = sim.memory
    for i, b in enumerate(code):
        mem[CODE + i] = b
    stop = CODE + len(code)
    sim.run(CODE, stop)

def run(scn):
    res = new_result()
    wd = build.workdir()
    try:
        if scn['kind'] == 'pager-pairs':
            return _run_pairs(scn, res)
        if scn['kind'] == 'press128':
            return _run_press(scn, res, wd)
        if scn['kind'] == 'pager-sim':
            return _run_sim(scn, res, wd)
        return _run_skoolmem(scn, res, wd)
    finally:
        shutil.rmtree(wd, ignore_errors=True)

def _model_code_write(model, code):
    for i, b in enumerate(code):
        model.banks[2][CODE - 0x8000 + i] = b

def _physical(sim):
    return [bytes(b) for b in sim.memory.banks]

def _check_all(scn, sim, tr, model, res, step, what):
    tag = '%s/%s' % (scn['copy'], scn['engine'])
    # latch copies
    if sim.memory.o7ffd != model.o7ffd:
        return fail(res, 'C08/hist/o7ffd/%s' % scn['copy'], '%s step %d (%s): memory.o7ffd=%d, last accepted write %d' % (tag, step, what, sim.memory.o7ffd, model.o7ffd))
    if tr.out7ffd != model.o7ffd:
        return fail(res, 'C08/hist/tracer-latch/%s' % scn['copy'], '%s step %d (%s): tracer.out7ffd=%d, last accepted write %d' % (tag, step, what, tr.out7ffd, model.o7ffd))
    # observe the mapping through executed loads (C pointers included)
    probes = (0x0001, 0x3FFE, 0x4001, 0x7FFE, 0x8100, 0xC000, 0xC001, 0xFFFF)
    code = []
    for a in probes:
        code += [0x3A] + word(a) + [0x32] + word(0x8200 + probes.index(a))      # LD A,(a); LD (0x8200+i),A
    run_code(sim, code)
    _model_code_write(model, code)
    for i, a in enumerate(probes):
        want = model.peek(a)
        model.banks[2][0x200 + i] = want
        got = sim.memory[0x8200 + i]
        if got != want:
            return fail(res, 'C08/hist/mapping/%s' % scn['copy'], '%s step %d (%s): LD A,(%d) read %d, model %d (o7ffd=%d: ROM %d, bank %d at 0xC000)' % (
                tag, step, what, a, got, want, model.o7ffd, (model.o7ffd >> 4) & 1, model.o7ffd & 7))
    # every physical bank
    phys = _physical(sim)
    for k in range(8):
        if phys[k] != bytes(model.banks[k]):
            j = next(i for i in range(0x4000) if phys[k][i] != model.banks[k][i])
            return fail(res, 'C08/hist/bank-content/%s' % scn['copy'], '%s step %d (%s): bank %d offset %d holds %d, model %d' % (tag, step, what, k, j, phys[k][j], model.banks[k][j]))
    for k in range(2):
        if bytes(sim.memory.roms[k]) != roms[k] and scn['machine'] == '128K' and scn['copy'] not in ('macro', 'audio128'):
            return fail(res, 'C08/hist/rom-modified', '%s step %d (%s): ROM %d modified' % (tag, step, what, k))
    return None

def _run_sim(scn, res, wd):
    banks = [bank_bytes(s, k) for k, s in enumerate(scn['banks'])]
    model = RefPaging(banks, scn['o7ffd'])
    sim, tr = make_system(scn, banks, scn['o7ffd'])
    global roms
    rom_set = [bytes(r) for r in sim.memory.roms]
    saved = roms
    roms = rom_set
    try:
        r = _check_all(scn, sim, tr, model, res, -1, 'initial')
        if r:
            return r
        h = hashlib.sha256()
        for step, op in enumerate(scn['ops']):
            what = ' '.join(str(x) for x in op)
            if op[0] == 'out':
                port, v, form = op[1], op[2], op[3]
                if form == 'c':
                    code = [0x01] + word(port) + [0x3E, v, 0xED, 0x79]
                    pv = (port, v)
                elif form == 'c0':
                    code = [0x01] + word(port) + [0xED, 0x71]
                    pv = (port, 0)
                elif form == 'n':
                    code = [0x3E, v, 0xD3, port & 0xFF]
                    pv = ((v << 8) | (port & 0xFF), v)
                else:   # OUTI: port = (B-1):C, value from (HL)
                    code = [0x21] + word(0x8300) + [0x36, v, 0x01] + word(((port + 0x100) & 0xFF00) | (port & 0xFF)) + [0xED, 0xA3]
                    pv = (port, v)
                    model.banks[2][0x300] = v
                run_code(sim, code)
                _model_code_write(model, code)
                if model.out(*pv):
                    bump(res, 'fault:PAGING_WRITE')
                elif pv[0] & 0x8002 == 0:
                    bump(res, 'probe:write_after_lock')
                else:
                    bump(res, 'probe:near_miss_port')
            elif op[0] == 'poke':
                a, v, form = op[1], op[2], op[3]
                if form == 'a':
                    code = [0x3E, v, 0x32] + word(a)
                    writes = [(a, v)]
                elif form == 'hl':
                    code = [0x21] + word(a) + [0x36, v]
                    writes = [(a, v)]
                elif form == 'push':
                    code = [0x31] + word((a + 2) & 0xFFFF) + [0x01] + word((v << 8) | (v ^ 0xFF)) + [0xC5, 0x31] + word(0xBF00)
                    writes = [((a + 1) & 0xFFFF, v), (a, v ^ 0xFF)]
                elif form == 'w':
                    code = [0x21] + word((v << 8) | (v ^ 0x55)) + [0x22] + word(a)
                    writes = [(a, v ^ 0x55), ((a + 1) & 0xFFFF, v)]
                else:   # LDIR two bytes from the code area
                    code = [0x21] + word(0x8400) + [0x36, v, 0x23, 0x36, v ^ 0xAA, 0x2B, 0x11] + word(a) + [0x01, 2, 0, 0xED, 0xB0]
                    writes = [(a, v), ((a + 1) & 0xFFFF, v ^ 0xAA)]
                # a write must not hit the driver code itself
                if any(CODE <= w[0] < CODE + 0x500 for w in writes):
                    continue
                if form == 'ldir':
                    model.banks[2][0x400] = v
                    model.banks[2][0x401] = v ^ 0xAA
                run_code(sim, code)
                _model_code_write(model, code)
                for a_, v_ in writes:
                    model.poke(a_, v_)
                bump(res, 'pokes')
            elif op[0] == 'peek':
                pass    # every check below peeks
            elif op[0] == 'restart':
                # only durable state survives: write a snapshot with the real writer, rebuild from it
                fn = os.path.join(wd, 'r%d.%s' % (step, op[1]))
                ram, registers, state, machine = simutils.get_state(sim) if hasattr(tr, 'border') and hasattr(tr, 'outfe') else (None, None, None, None)
                if ram is None or scn['copy'] in ('macro', 'audio128'):
                    continue
                snapshot_mod.write_snapshot(fn, ram, registers, state, machine)
                snap = snapshot_mod.Snapshot.get(fn)
                cls = _cls[scn['engine']]
                sim = simutils.from_snapshot(cls, snap, {'SP': 0xBF00, 'PC': CODE}, {'iff': 0})
                if sim.memory.o7ffd != snap.out7ffd:
                    pass
                tr = make_tracer(scn['copy'], sim, snap.out7ffd, snap.outfffd, snap.ay, snap.border, snap.outfe)
                sim.set_tracer(tr)
                bump(res, 'fault:CRASH(%s)' % op[1])
            r = _check_all(scn, sim, tr, model, res, step, what)
            if r:
                return r
            bump(res, 'events')
            h.update(what.encode())
            h.update(bytes([model.o7ffd]))
        res['sigs'].append('%s|%s|%s|%d' % (scn['copy'], scn['engine'], 'eq' if 'fill' in scn['banks'][0] else 'mk', min(len(scn['ops']), 8)))
        res['digest'] = h.hexdigest()
        return res
    finally:
        roms = saved

# -- exhaustive histories of length 2 ----------------------------------------------------------------

PAIR_PORTS = (0x7FFD, 0x0000, 0x7DFC, 0x3FFD, 0x5555 & 0x7FFD)

def pairs_total():
    return len(COPIES) * 4 * 256

def gen_pairs(k):
    copy = COPIES[k % len(COPIES)]
    engine = ENGINES[(k // len(COPIES)) % 4]
    v1 = (k // (len(COPIES) * 4)) % 256
    return {'kind': 'pager-pairs', 'copy': copy, 'engine': engine, 'machine': ('128K', '+2')[v1 & 1], 'v1': v1,
            'port': PAIR_PORTS[(k // 7) % len(PAIR_PORTS)], 'miss': PORTS_MISS[k % len(PORTS_MISS)], 'lo': 0, 'hi': 256}

def _run_pairs(scn, res):
    """Every history (v1, v2), v2 in [lo, hi), of two values written to a port that matches the 0x7FFD decode, each
    followed by a write to a port that does not match; after each write: latch copies, the mapping as seen by
    executed loads from every 16K region, and one store through 0xC000 that must reach exactly one physical bank."""
    tag = '%s/%s' % (scn['copy'], scn['engine'])
    v1, port, miss = scn['v1'], scn['port'], scn['miss']
    banks0 = [bytes([0x11 * (k + 1)]) * 0x4000 for k in range(8)]
    sim = None
    global roms
    saved = roms
    h = hashlib.sha256()
    try:
        for v2 in range(scn['lo'], scn['hi']):
            if sim is None:
                model = RefPaging(banks0, 0)
                sim, tr = make_system(scn, banks0, 0)
                roms = [bytes(r) for r in sim.memory.roms]
                bump(res, 'fault:CRASH(rebuild)')
            for n, v in enumerate((v1, v2)):
                code = [0x01] + word(miss) + [0x3E, v ^ 0xFF, 0xED, 0x79, 0x01] + word(port) + [0x3E, v, 0xED, 0x79]
                # LD A,(probe) / LD (0x8200+i),A for one address per region and both ends of the paged region
                probes = (0x0001, 0x3FFE, 0x4001, 0x8100, 0xC000, 0xFFFF)
                for i, a in enumerate(probes):
                    code += [0x3A] + word(a) + [0x32] + word(0x8200 + i)
                off = 0x1000 + (v1 * 31 + v2 * 7 + n) % 0x3000      # clear of the driver code and its result slots when bank 2 is paged at 0xC000
                val = (v1 + 3 * v2 + n + 1) & 0xFF
                code += [0x3E, val, 0x32] + word(0xC000 + off)
                run_code(sim, code)
                _model_code_write(model, code)
                what = 'OUT (%d),%d; OUT (%d),%d [history %d,%d]' % (miss, v ^ 0xFF, port, v, v1, v2)
                if model.out(port, v):
                    bump(res, 'fault:PAGING_WRITE')
                else:
                    bump(res, 'probe:write_after_lock')
                bump(res, 'events')
                if sim.memory.o7ffd != model.o7ffd:
                    return fail(res, 'C08/hist/o7ffd/%s' % scn['copy'], '%s after %s: memory.o7ffd=%d, last accepted write %d' % (tag, what, sim.memory.o7ffd, model.o7ffd))
                if tr.out7ffd != model.o7ffd:
                    return fail(res, 'C08/hist/tracer-latch/%s' % scn['copy'], '%s after %s: tracer.out7ffd=%d, last accepted write %d' % (tag, what, tr.out7ffd, model.o7ffd))
                for i, a in enumerate(probes):
                    want = model.peek(a)
                    model.banks[2][0x200 + i] = want
                    got = sim.memory[0x8200 + i]
                    if got != want:
                        return fail(res, 'C08/hist/mapping/%s' % scn['copy'], '%s after %s: LD A,(%d) read %d, model %d (ROM %d, bank %d at 0xC000)' % (
                            tag, what, a, got, want, (model.o7ffd >> 4) & 1, model.o7ffd & 7))
                model.poke(0xC000 + off, val)
                for k in range(8):
                    got = sim.memory.banks[k][off]
                    if got != model.banks[k][off]:
                        return fail(res, 'C08/hist/bank-content/%s' % scn['copy'], '%s after %s: store to %d: bank %d offset %d holds %d, model %d' % (tag, what, 0xC000 + off, k, off, got, model.banks[k][off]))
                h.update(bytes([model.o7ffd]))
            if model.o7ffd & 0x20 and not v1 & 0x20:
                sim = None      # only a restart clears the lock
        # ROMs untouched (macro copies run on the skool memory model, whose ROM slots are ordinary lists)
        if sim is not None and scn['copy'] not in ('macro', 'audio128'):
            for k in range(2):
                if bytes(sim.memory.roms[k]) != roms[k]:
                    return fail(res, 'C08/hist/rom-modified', '%s: ROM %d modified by history starting with %d' % (tag, k, v1))
        res['sigs'].append('pairs|%s|%s|%d' % (scn['copy'], scn['engine'], v1 >> 3))
        res['digest'] = h.hexdigest()
        return res
    finally:
        roms = saved

# -- tap2sna tracer hand-over (--press) ------------------------------------------------------------------

def _run_press(scn, res, wd):
    """The latch travels LoadTracer -> KeypressTracer -> LoadTracer in tap2sna when the tape is paused for a keypress.
    Oracle: the final latch and the bank that received the marker follow the reference pager over the two writes."""
    from . import gen_tzx, tapeload
    try:
        tape, start, machine, ranges, skip = gen_tzx.build(scn, wd)
        cfg = dict(scn['base'])
        cfg.update({'accelerator': 'auto', 'accelerate-dec-a': 1, 'pause': 1, 'python': int(scn['python']), 'fast-load': 0, 'cmio': 0, 'machine': '128', 'timeout': 200})
        tapeload.set_accelerator_order(0)
        out, st, snap = tapeload.load(tape, start, cfg, os.path.join(wd, 'press.szx'), scn['extra_args'])
    except tapeload.ToolError as e:
        return fail(res, 'C08/press/tool-error', str(e))
    except tapeload.Hang:
        res['discard'] = 'HANG: simulated LOAD on the C engine did not return and was killed'
        return res
    text = tapeload.stripped(out)
    if 'PC at start address' not in text or 'Resuming LOAD' not in text:
        res['discard'] = 'press scenario did not pause / reach its start address'
        return res
    p = scn['press']
    model = RefPaging([bytes(0x4000)] * 8, 0x10)       # tap2sna starts a 128K machine in 48K BASIC (ROM 1, bank 0), unlocked
    model.out(0x7FFD, p['v1'])
    model.out(0x7FFD, p['v2'])
    bump(res, 'events')
    bump(res, 'fault:TRACER_HANDOVER(--press)')
    if p['v1'] & 0x20:
        bump(res, 'probe:write_after_lock')
    tag = 'python' if scn['python'] else 'c'
    if snap.out7ffd != model.o7ffd:
        return fail(res, 'C08/press/latch', 'tap2sna --press (%s engine): final 0x7FFD latch %d, last accepted write %d (writes %d during the keypress phase, %d after the load resumed)' % (tag, snap.out7ffd, model.o7ffd, p['v1'], p['v2']))
    ram = snap.ram(-1)
    target = model.o7ffd & 7
    for b in range(8):
        got = ram[b * 16384]
        if b == target and got != p['marker']:
            return fail(res, 'C08/press/mapping', 'tap2sna --press (%s engine): marker %d stored through 0xC000 is not in bank %d (selected by the last accepted write %d; writes %d, %d)' % (tag, p['marker'], target, model.o7ffd, p['v1'], p['v2']))
        if b != target and got == p['marker'] and b not in (5, 2, 0):
            return fail(res, 'C08/press/mapping', 'tap2sna --press (%s engine): marker %d landed in bank %d, the last accepted write %d selects bank %d' % (tag, p['marker'], b, model.o7ffd, target))
    res['sigs'].append('press|%s|%d' % (tag, (p['v1'] >> 5) & 1))
    res['digest'] = hashlib.sha256(('%d|%d' % (snap.out7ffd, target)).encode()).hexdigest()
    return res

# -- skool-file memory model -------------------------------------------------------------------

def gen_skoolmem(rng, tier, index):
    n = rng.choice((1, 2, 3, 5, 8, 13, 25))
    ops = []
    for _ in range(n):
        r = rng.random()
        if r < 0.2:
            ops.append(['bank', rng.randrange(8)])
        elif r < 0.28:
            ops.append(['bankdata', rng.randrange(8), rng.randrange(256)])
        elif r < 0.34:
            ops.append(['out7ffd', rng.choice((rng.randrange(8), 0x10 | rng.randrange(8), rng.randrange(256)))])
        elif r < 0.44:
            # a #SIM-style session on the skool memory: tracer and lock state are built from memory.o7ffd
            ops.append(['simout', rng.choice((rng.randrange(8), 0x10 | rng.randrange(8), 0x20 | rng.randrange(32), rng.randrange(256))), rng.choice(('py', 'c'))])
        elif r < 0.55:
            ops.append(['copy'])
        elif r < 0.8:
            ops.append(['set', rng.choice((rng.randrange(0x4000, 0x10000), rng.randrange(0xC000, 0x10000), 0xC000, 0xFFFF)), rng.randrange(256)])
        elif r < 0.9:
            a = rng.randrange(0x4000, 0xFFF0)
            ops.append(['setslice', a, rng.randrange(1, 6), rng.choice((1, 1, 2)), rng.randrange(256)])
        elif r < 0.95:
            ops.append(['pushpop', rng.randrange(0xC000, 0x10000), rng.randrange(256)])
        else:
            ops.append(['convert'])
    return {'kind': 'skool-memory', 'start128': rng.random() < 0.8, 'ops': ops}

def _run_skoolmem(scn, res, wd):
    from skoolkit.skoolutils import Memory
    m = Memory()
    # model: 8 banks (None until 128K), mapping index
    banks = [None] * 8
    for k in (5, 2, 0):
        banks[k] = bytearray(0x4000)
    page = 0
    o7 = 0
    is128 = False
    def to128():
        nonlocal is128
        if not is128:
            for k in (1, 3, 4, 6, 7):
                banks[k] = bytearray(0x4000)
            is128 = True
    def mpeek(a):
        seg = a >> 14
        if seg == 0:
            return None
        return (banks[5], banks[2], banks[page])[seg - 1][a & 0x3FFF]
    def mpoke(a, v):
        seg = a >> 14
        if seg:
            (banks[5], banks[2], banks[page])[seg - 1][a & 0x3FFF] = v
    if scn['start128']:
        m.bank(0)
        to128()
    stack = []
    for step, op in enumerate(scn['ops']):
        what = ' '.join(str(x) for x in op)
        if op[0] == 'bank':
            m.bank(op[1])
            to128()
            page = op[1]
            o7 = (o7 & 0xF8) | op[1]          # #BANK changes the paged bank only; ROM, screen and lock bits stay
        elif op[0] == 'simout':
            if not is128:
                continue
            cls = _cls['py' if op[2] == 'py' else 'c']
            if op[2] == 'c':
                continue          # the C engines need memory.convert(); the skool-file memory is driven by Python here
            tr = skoolmacro.PagingTracer(m, m.o7ffd, 0, [0] * 16)
            sim = simutils.from_memory(cls, m, {'SP': 0xBF00}, {'iff': 0})
            sim.set_tracer(tr)
            code = [0x01, 0xFD, 0x7F, 0x3E, op[1], 0xED, 0x79]
            for i_, b_ in enumerate(code):
                m[0x8000 + i_] = b_
                banks[2][i_] = b_
            sim.run(0x8000, 0x8000 + len(code))
            if not o7 & 0x20:
                o7 = op[1]
                page = op[1] & 7
            bump(res, 'sim_sessions')
        elif op[0] == 'bankdata':
            if not is128:
                continue
            data = [(op[2] + i) & 0xFF for i in range(0x4000)]
            m.bank(op[1], data)
            banks[op[1]][:] = bytes(data)
        elif op[0] == 'out7ffd':
            if not is128:
                continue
            m.out7ffd(op[1])
            page = op[1] & 7
            o7 = op[1]
        elif op[0] == 'copy':
            m = m.copy()
        elif op[0] == 'set':
            m[op[1]] = op[2]
            mpoke(op[1], op[2])
        elif op[0] == 'setslice':
            a, n, st, v = op[1:5]
            m[a:a + n * st:st] = [v] * n
            for i in range(n):
                mpoke((a + i * st) & 0xFFFF, v)
        elif op[0] == 'pushpop':
            saved = m.copy()
            m[op[1]] = op[2]
            m[:] = saved[:]          # what the writers' pop_snapshot does
        elif op[0] == 'convert':
            m.convert()
        bump(res, 'events')
        # invariants: visible memory = model; each physical bank = model; o7ffd consistent
        for a in (0x4000, 0x7FFF, 0x8000, 0xBFFF, 0xC000, 0xC001, 0xFFFE, 0xFFFF) + ((op[1],) if op[0] == 'set' else ()):
            if m[a] != mpeek(a):
                return fail(res, 'C08/skoolmem/visible', 'step %d (%s): memory[%d]=%d, model %d (paged bank %d)' % (step, what, a, m[a], mpeek(a), page))
        for k in range(8):
            if banks[k] is not None and m.banks[k] is not None and bytes(m.banks[k]) != bytes(banks[k]):
                j = next(i for i in range(0x4000) if m.banks[k][i] != banks[k][i])
                return fail(res, 'C08/skoolmem/bank-content', 'step %d (%s): bank %d offset %d holds %d, model %d (paged bank %d)' % (step, what, k, j, m.banks[k][j], banks[k][j], page))
        if is128 and m.o7ffd % 8 != page:
            return fail(res, 'C08/skoolmem/o7ffd', 'step %d (%s): o7ffd=%d but bank %d is paged in' % (step, what, m.o7ffd, page))
        if is128 and m.o7ffd != o7:
            return fail(res, 'C08/skoolmem/latch', 'step %d (%s): o7ffd=%d, model latch %d (lock/ROM/screen bits must survive #BANK; a locked latch must refuse writes)' % (step, what, m.o7ffd, o7))
    res['sigs'].append('skoolmem|%d|%s' % (min(len(scn['ops']), 8), scn['start128']))
    res['digest'] = hashlib.sha256(json.dumps(scn['ops']).encode()).hexdigest()
    return res

def gen(rng, tier, index):
    if index % 5 == 4:
        return gen_skoolmem(rng, tier, index)
    return gen_sim(rng, tier, index - index // 5)

def shrink_candidates(scn):
    if scn['kind'] == 'press128':
        return
    if scn['kind'] == 'pager-pairs':
        lo, hi = scn['lo'], scn['hi']
        if hi - lo > 1:
            mid = (lo + hi) // 2
            yield dict(scn, hi=mid)
            yield dict(scn, lo=mid)
        return
    ops = scn['ops']
    def cp(o):
        c = json.loads(json.dumps(scn)); c['ops'] = o; return c
    n = len(ops)
    for m in (1, n // 2, n - 1):
        if 0 < m < n:
            yield cp(ops[:m])
    for i in range(n - 1):
        yield cp(ops[:i] + ops[i + 1:])
