def run_phase(tier, seed, total, jobs, budget_s):
    pass
