"""C20 - RZX playback is reproducible, implementation-independent and resumable.

Record a simulated run (harness recorder driving a real core), replay it with rzxplay.main on
C and Python engines, stop at seeded frames, dump the remaining recording with its embedded
snapshot, restart from that file (only the file survives), compare final machine states; rzxinfo
must report exactly what was recorded.
"""
import contextlib
import hashlib
import io
import json
import os
import re
import shutil

from . import build, gen_prog, gen_rzx, prng
from .harness import new_result, fail, bump
from . import p10

PROP = 'C20'
RUNS = {'quick': 900, 'thorough': 40000}
BUDGET_S = {'quick': 150, 'thorough': 2400}
CHUNK = 8

_captured = []

def init():
    global rzxplay, rzxinfo, snapshot_mod, simutils, PagingTracer, classes
    import skoolkit
    from skoolkit import rzxplay, rzxinfo, snapshot as snapshot_mod, simutils, simulator, cmiosimulator
    from skoolkit.pagingtracer import PagingTracer
    classes = {(False, True): simulator.Simulator, (False, False): skoolkit.CSimulator,
               (True, True): cmiosimulator.CMIOSimulator, (True, False): skoolkit.CCMIOSimulator}
    orig = rzxplay.write_snapshot
    def capture(fname, ram, registers, state, machine='48K'):
        _captured.append((fname, ram, list(registers), list(state), machine))
        return orig(fname, ram, registers, state, machine)
    rzxplay.write_snapshot = capture
    p10.snapshot_mod = snapshot_mod

def gen(rng, tier, index):
    machine = rng.choice(('48K', '48K', '128K', '128K', '+2'))
    style = rng.choice(('io',) * 5 + ('structured',) * 3 + ('chaos', 'rom'))
    prog = gen_prog.gen_program(rng, machine, style=style)
    frame = 69888 if machine == '48K' else 70908
    prog['state']['tstates'] %= frame
    nframes = rng.choice((1, 2, 3, 4, 6, 8, 12)) if tier == 'quick' else rng.choice((1, 2, 3, 5, 8, 13, 21, 40))
    frames = []
    for _ in range(nframes):
        r = rng.random()
        if r < 0.2:
            frames.append({'n': rng.choice((1, 1, 2, 3))})
        elif r < 0.25:
            frames.append({'n': 0})
        elif r < 0.5:
            frames.append({'until': rng.choice(('ei', 'ei', 'ldair', 'ldair', 'halt', 'prefix', 'in')), 'max': prng.log_uniform(rng, 4, 1500)})
        elif r < 0.3 and tier != 'quick':
            frames.append({'t': frame})
        else:
            frames.append({'n': prng.log_uniform(rng, 4, 1200 if tier == 'quick' else 4000)})
    if all(f.get('n') == 0 for f in frames):
        frames[0] = {'n': 5}
    second = None
    if nframes >= 3 and rng.random() < 0.3:
        second = {'at': rng.randrange(1, nframes), 'fmt': rng.choice(('szx', 'z80')), 'compress': rng.random() < 0.5}
    stops = sorted(set(rng.randrange(1, nframes) for _ in range(rng.choice((1, 1, 2, 3))))) if nframes > 1 else []
    return {
        'kind': 'rzx', 'machine': machine, 'prog': prog, 'snap_fmt': rng.choice(('szx', 'z80')), 'snap_compress': rng.random() < 0.6,
        'irb_compress': rng.random() < 0.6, 'minor': rng.choice((12, 13)), 'cmio': rng.random() < 0.4, 'rec_python': rng.random() < 0.3,
        'conv': rng.choice((0, 0, 1, 2, 3)), 'ei_block': [rng.random() < 0.5 for _ in range(nframes)], 'frames': frames,
        'reads': [rng.choice((0xFF, 0xBF, 0x1F, 0, rng.randrange(256), rng.randrange(256))) for _ in range(rng.choice((1, 2, 7, 64)))],
        'tstates0': rng.choice((0, 0, rng.randrange(frame))), 'second': second, 'use_repeat': rng.random() < 0.8,
        'stops': stops, 'leg_python': [rng.random() < 0.4 for _ in range(5)], 'flag4': rng.random() < 0.3,
    }

class ToolError(Exception):
    pass

class Hang(Exception):
    pass

def run_tool(mod, args):
    if mod is rzxplay and '--python' not in args:
        # the C frame loop cannot be interrupted from Python: run it in a child that can be killed
        from .harness import in_child, ChildKilled
        try:
            r = in_child(lambda: _run_tool(mod, args), 45)
        except ChildKilled:
            raise Hang('rzxplay%r (C engine) did not return within 45 s and was killed' % (args,))
        if r[0] == 'exc':
            raise ToolError(r[2])
        return r[1]
    return _run_tool(mod, args)

def _run_tool(mod, args):
    del _captured[:]
    out = io.StringIO()
    try:
        with contextlib.redirect_stdout(out), contextlib.redirect_stderr(io.StringIO()):
            mod.main(args)
    except SystemExit as e:
        raise ToolError('%s.main%r exited: %s' % (mod.__name__, args, e))
    except Exception as e:
        raise ToolError('%s.main%r raised %s: %s' % (mod.__name__, args, type(e).__name__, e))
    return out.getvalue(), list(_captured)

class _RecTracer:
    pass

def _make_tracer(sim, snap, reads):
    class RecTracer(PagingTracer):
        def __init__(self):
            self.simulator = sim
            self.border = snap.border
            self.out7ffd = snap.out7ffd
            self.outfffd = snap.outfffd
            self.ay = list(snap.ay)
            self.outfe = snap.outfe
            self.k = 0
            self.cur = []
        def read_port(self, registers, port):
            v = reads[self.k % len(reads)]
            self.k += 1
            self.cur.append(v)
            return v
    return RecTracer()

def _snapshot_bytes(sim, fmt, wd, name):
    ram, registers, state, machine = simutils.get_state(sim)
    fname = os.path.join(wd, '%s.%s' % (name, fmt))
    snapshot_mod.write_snapshot(fname, ram, registers, state, machine)
    with open(fname, 'rb') as f:
        return f.read()

def _new_sim(scn, data, ext, tstates, k0=0):
    try:
        snap = snapshot_mod.Snapshot.get(data, ext)
    except Exception as e:
        # the bytes were produced by SkoolKit's own snapshot writer (the durable store of this property)
        raise ToolError('snapshot (%s) written by SkoolKit cannot be read back by Snapshot.get: %s: %s' % (ext, type(e).__name__, e))
    cls = classes[(scn['cmio'], scn['rec_python'])]
    sim = simutils.from_snapshot(cls, snap, config={'int_active': 0})
    tr = _make_tracer(sim, snap, scn['reads'])
    tr.k = k0
    sim.set_tracer(tr)
    sim.registers[25] = tstates
    return sim, tr

def _wants_z80v2(scn):
    # every second Z80 start snapshot is a version 2 file (a foreign recorder's): decided from fields already drawn,
    # so that the other choices of the scenario keep their values
    if 'z80v2' in scn:
        return scn['z80v2']
    return (sum(scn['reads']) + scn['tstates0'] + len(scn['frames'])) % 2 == 0

def _z80_v3_to_v2(data):
    """SkoolKit writes version 3 Z80 files (54-byte extra header).  -> the same machine state as a version 2 file
    (23-byte extra header: PC, hardware mode, 0x7FFD, IF1 byte, flags, 0xFFFD, 16 AY registers; no T-state counter - the
    input recording block carries T).  Hardware mode 4 (128K in v3) is 3 in v2."""
    if len(data) < 87 or data[30] != 54 or data[31] != 0:
        return data
    hdr = bytearray(data[:55])
    hdr[30] = 23
    if hdr[34] == 4:
        hdr[34] = 3
    elif hdr[34] != 0:
        return data
    return bytes(hdr) + data[86:]

def record(scn, wd, memptr0_at=()):
    """-> (rzx bytes, final state (get_state tuple), pairs [(ext, frames)], stats)"""
    st = {}
    prog = dict(scn['prog'])
    start_scn = {'prog': prog, 'start_fmt': scn['snap_fmt']}
    fname, extra = p10.write_start(start_scn, wd)
    with open(fname, 'rb') as f:
        sdata = f.read()
    if scn['snap_fmt'] == 'z80' and _wants_z80v2(scn):
        sdata = _z80_v3_to_v2(sdata)
        st['z80v2_start_snapshot'] = 1
    sim, tr = _new_sim(scn, sdata, scn['snap_fmt'], scn['tstates0'])
    pairs = [[scn['snap_fmt'], sdata, scn['snap_compress'], scn['tstates0'], []]]
    specs = scn['frames']
    conv = scn['conv']
    regs = sim.registers
    mem = sim.memory
    second = scn.get('second')
    total_fetches = 0
    boundary = 0
    i = 0
    while i < len(specs):
        if second and second['at'] == i:
            # new snapshot + input recording block: the player rebuilds its machine from this snapshot (unless flag 4)
            data2 = _snapshot_bytes(sim, second['fmt'], wd, 'second')
            k0 = tr.k
            t_now = regs[25]        # the new input recording block starts at the clock the machine has now
            sim, tr = _new_sim(scn, data2, second['fmt'], t_now, k0)
            regs, mem = sim.registers, sim.memory
            pairs.append([second['fmt'], data2, second['compress'], t_now, []])
            st['second_pair'] = 1
        spec = specs[i]
        cur = pairs[-1][4]
        if spec.get('n') == 0:
            cur.append((0, []))
            st['zero_frames'] = st.get('zero_frames', 0) + 1
            i += 1
            boundary += 1
            continue
        fetches = 0
        tr.cur = []
        last_pc = regs[24]
        if 'until' in spec:
            # end the frame directly after a chosen kind of instruction (EI, LD A,I/R, HALT, lone prefix, IN)
            want_ops = spec['until']
            while fetches < spec['max']:
                last_pc = regs[24]
                op = mem[last_pc]
                op2 = mem[(last_pc + 1) % 65536]
                fetches += gen_rzx.m1_count(mem.__getitem__, last_pc)
                sim.run()
                if (want_ops == 'ei' and op == 0xFB) or (want_ops == 'ldair' and op == 0xED and op2 in (0x57, 0x5F)) or \
                   (want_ops == 'halt' and op == 0x76) or (want_ops == 'prefix' and op in (0xDD, 0xFD)) or (want_ops == 'in' and (op == 0xDB or (op == 0xED and op2 & 0xC7 == 0x40))):
                    st['frame_end_after_' + want_ops] = st.get('frame_end_after_' + want_ops, 0) + 1
                    break
        elif 't' in spec:
            while regs[25] < spec['t'] and fetches < 65000:
                last_pc = regs[24]
                fetches += gen_rzx.m1_count(mem.__getitem__, last_pc)
                sim.run()
        else:
            while fetches < spec['n']:
                last_pc = regs[24]
                fetches += gen_rzx.m1_count(mem.__getitem__, last_pc)
                sim.run()
        cur.append((fetches, list(tr.cur)))
        total_fetches += fetches
        # frame boundary
        regs[25] = 0
        # next non-empty frame in the same input recording block
        nxt = None
        j = i + 1
        while j < len(specs) and not (second and second['at'] == j):
            if specs[j].get('n') != 0:
                nxt = specs[j]
                break
            j += 1
        if regs[26]:
            lastop = mem[last_pc]
            if lastop == 0x76:
                regs[24] = (regs[24] + 1) % 65536
                sim.accept_interrupt(regs, mem, 0)
                st['int_after_halt'] = st.get('int_after_halt', 0) + 1
            elif conv & 1 and lastop == 0xED and mem[(last_pc + 1) % 65536] in (0x57, 0x5F):
                regs[1] &= 0xFB
                sim.accept_interrupt(regs, mem, 0)
                st['int_after_ldair'] = st.get('int_after_ldair', 0) + 1
            elif conv & 2:
                if lastop == 0xFB:
                    if nxt is None:
                        st['ei_last_blocked'] = st.get('ei_last_blocked', 0) + 1
                    elif scn['ei_block'][i % len(scn['ei_block'])]:
                        nxt.clear()
                        nxt['n'] = 1            # a short frame: exactly one instruction, 1 or 2 fetches
                        st['ei_last_blocked'] = st.get('ei_last_blocked', 0) + 1
                    else:
                        if 'until' in nxt or nxt.get('n', 3) < 3:
                            nxt.clear()
                            nxt['n'] = 3
                        sim.accept_interrupt(regs, mem, 0)
                        st['ei_last_accepted'] = st.get('ei_last_accepted', 0) + 1
                else:
                    sim.accept_interrupt(regs, mem, 0)
            else:
                sim.accept_interrupt(regs, mem, 0)
                st['int_accepted'] = st.get('int_accepted', 0) + 1
        boundary += 1
        if boundary in memptr0_at:
            regs[29] = 0
        i += 1
    blocks = []
    n_rep = 0
    for ext, data, comp, t0, frames in pairs:
        blocks.append(gen_rzx.snapshot_block(data, ext, comp))
        blk, nr = gen_rzx.input_block(frames, t0, scn['irb_compress'], scn.get('use_repeat', True))
        n_rep += nr
        blocks.append(blk)
    st['repeat_markers'] = n_rep
    st['fetches'] = total_fetches
    st['port_reads'] = tr.k
    final = ('recorder',) + tuple(simutils.get_state(sim))
    return gen_rzx.rzx_file(blocks, scn['minor']), final, [(p[0], p[4]) for p in pairs], st

def _play_args(scn, python, extra=()):
    a = ['--quiet', '--no-screen', '--flags', str(scn['conv'] | (4 if scn.get('flag4') and _flag4_ok(scn) else 0))]
    if python:
        a.append('--python')
    if scn['cmio']:
        a.append('--cmio')
    return a + list(extra)

def _flag4_ok(scn):
    # with flag 4 the player keeps its own state across a second snapshot; that equals the snapshot's
    # content exactly only for SZX (Z80 drops MEMPTR)
    s = scn.get('second')
    return s is None or s['fmt'] == 'szx' or not scn['cmio']

def _expected_rzxinfo(pairs, use_repeat):
    exp = []
    for ext, frames in pairs:
        prev = None
        out = []
        for k, (fc, reads) in enumerate(frames):
            rep = use_repeat and k > 0 and prev is not None and reads == prev and len(reads) > 0
            if rep:
                out.append((fc, 65535, tuple(prev[:10]), len(prev)))
            else:
                out.append((fc, len(reads), tuple(reads[:10]), len(reads)))
                prev = list(reads)
        exp.append(out)
    return exp

def _parse_rzxinfo(text):
    blocks = []
    cur = None
    frame = None
    for ln in text.splitlines():
        s = ln.strip()
        if s == 'Input recording:':
            cur = []
            blocks.append(cur)
            frame = None
        elif s.startswith('Frame ') and cur is not None:
            frame = {'fc': None, 'ic': None, 'reads': (), 'n': None}
            cur.append(frame)
        elif s.startswith('Fetch counter:') and frame is not None:
            frame['fc'] = int(s.split(':')[1])
        elif s.startswith('IN counter:') and frame is not None:
            m = re.match(r'IN counter: (\d+)(?: \((\d+)\))?', s)
            frame['ic'] = int(m.group(1))
            frame['n'] = int(m.group(2)) if m.group(2) else int(m.group(1))
        elif s.startswith('Port readings:') and frame is not None:
            vals = s.split(':')[1].strip()
            frame['more'] = vals.endswith('...')
            vals = vals.rstrip('.')
            frame['reads'] = tuple(int(v) for v in vals.split(',') if v.strip())
        elif s.startswith('Number of frames:') and cur is not None:
            cur.append({'count': int(s.split(':')[1].split('(')[0])})
    out = []
    for b in blocks:
        cnt = b[0]['count'] if b and 'count' in b[0] else None
        out.append((cnt, [(f['fc'], f['ic'], f['reads'], f['n']) for f in b if 'fc' in f]))
    return out

def run(scn):
    res = new_result()
    wd = build.workdir()
    try:
        return _run(scn, res, wd)
    except Hang as e:
        res['discard'] = 'HANG: C playback did not return and was killed'
        res['detail'] = str(e)
        return res
    finally:
        shutil.rmtree(wd, ignore_errors=True)

SKIP_ALWAYS = ()

def _cmp(res, label, want, got, skip=()):
    d = p10.diff_states(want, got, skip)
    if d:
        return fail(res, 'C20/%s/%s' % (label, d[0][0]), '%s: final state differs\n%s' % (label, '\n'.join('  %s: expected=%s got=%s' % x for x in d[:12])))
    return None

def _run(scn, res, wd):
    machine = scn['machine']
    frame = 69888 if machine == '48K' else 70908
    scn = json.loads(json.dumps(scn))
    try:
        data, final, pairs, st = record(scn, wd)
    except ToolError as e:
        return fail(res, 'C20/tool-error', 'recorder: ' + str(e))
    for k, v in st.items():
        bump(res, 'probe:' + k if not k in ('fetches', 'port_reads') else k, v)
    nframes = sum(len(f) for _, f in pairs)
    total_fetch = st['fetches']
    if total_fetch == 0:
        res['discard'] = 'empty recording'
        return res
    rzx = os.path.join(wd, 'rec.rzx')
    with open(rzx, 'wb') as f:
        f.write(data)
    want = p10.extract(final, frame)
    h = hashlib.sha256(data)
    all_szx = scn['snap_fmt'] == 'szx' and (not scn.get('second') or scn['second']['fmt'] == 'szx')
    try:
        # (4) rzxinfo reports exactly what was recorded
        out, _ = run_tool(rzxinfo, ['--frames', rzx])
        got_info = _parse_rzxinfo(out)
        exp_info = _expected_rzxinfo(pairs, scn.get('use_repeat', True))
        if len(got_info) != len(exp_info):
            return fail(res, 'C20/rzxinfo/blocks', 'rzxinfo shows %d input recording blocks, recorded %d' % (len(got_info), len(exp_info)))
        for bi, ((cnt, gf), ef) in enumerate(zip(got_info, exp_info)):
            if cnt != len(ef) or len(gf) != len(ef):
                return fail(res, 'C20/rzxinfo/frame-count', 'block %d: rzxinfo frame count %s / %d listed, recorded %d' % (bi, cnt, len(gf), len(ef)))
            for k, (g, e) in enumerate(zip(gf, ef)):
                if g[0] != e[0] or g[1] != e[1] or g[3] != e[3] or (e[2] and g[2] != e[2]):
                    return fail(res, 'C20/rzxinfo/frame', 'block %d frame %d: rzxinfo (fetch, in, readings, n)=%s recorded %s' % (bi, k, g, e))
        bump(res, 'rzxinfo_frames_checked', nframes)

        # (1)+(2) uninterrupted playback on both languages
        finals = {}
        for python in (False, True):
            end = os.path.join(wd, 'end-%d.szx' % python)
            out, caps = run_tool(rzxplay, _play_args(scn, python) + [rzx, end])
            got = p10.extract(caps[-1], frame)
            finals[python] = got
            skip = ()
            if not scn['cmio']:
                skip = ('reg.MEMPTR',)      # plain engines do not model MEMPTR; snapshots carry whatever was there
            if not all_szx:
                skip = skip + ('hw.fe',)    # the Z80 format has no field for the last value written to port 0xFE
            r = _cmp(res, 'play-%s' % ('py' if python else 'c'), want, got, skip)
            if r:
                return r
            bump(res, 'plays')
        r = _cmp(res, 'c-vs-py', finals[False], finals[True])
        if r:
            return r

        # (3) stop / dump / resume chains
        # rzxplay checks --stop only after it has executed a non-empty frame, and its frame counter also counts the
        # empty (zero-fetch) frames it skips; _simulate_stop mirrors that counter to find which boundary a --stop
        # value really denotes and what remains.  A stop with nothing non-empty left is a stop at F, outside 1..F-1.
        blocks = [[fr[0] for fr in frs] for _, frs in pairs]
        stops = []
        stop_args = []
        base = 0
        for s0 in scn.get('stops', []):
            r_ = _simulate_stop(blocks, s0 - base)
            if r_ is None:
                break
            b_, blocks = r_
            if not any(fc for blk in blocks for fc in blk):
                break
            stops.append(base + b_)
            stop_args.append(s0 - base)
            base += b_
        if stops:
            cur = rzx
            z80_restart = False
            restart_boundaries = []
            for li, s in enumerate(stops):
                outf = os.path.join(wd, 'stop%d.rzx' % li)
                # --stop counts frames of the file being played
                out, caps = run_tool(rzxplay, _play_args(scn, scn['leg_python'][li % 5], ['--stop', str(stop_args[li])]) + [cur, outf])
                cur = outf
                bump(res, 'fault:RZX_STOP')
                restart_boundaries.append(s)
            end = os.path.join(wd, 'end-chain.szx')
            out, caps = run_tool(rzxplay, _play_args(scn, scn['leg_python'][len(stops) % 5]) + [cur, end])
            got = p10.extract(caps[-1], frame)
            ref = want
            skip = ('reg.MEMPTR',) if not scn['cmio'] else ()
            if not all_szx:
                skip = skip + ('hw.fe',)
            if scn['cmio'] and _any_z80(scn, stops, pairs):
                # a Z80 embedded snapshot drops MEMPTR at the restart: the reference is the recording
                # replayed with MEMPTR := 0 at those boundaries (if that changes the recording itself, discard)
                wd2 = os.path.join(wd, 'ref2')
                os.makedirs(wd2)
                data2, final2, pairs2, st2 = record(json.loads(json.dumps(scn)), wd2, memptr0_at=set(_z80_boundaries(scn, stops, pairs)))
                if [p[1] for p in pairs2] != [p[1] for p in pairs]:
                    res['discard'] = 'MEMPTR loss at Z80 restart changes the recorded program path'
                    return res
                ref = p10.extract(final2, frame)
                skip = ('reg.MEMPTR', 'hw.fe')
                bump(res, 'z80_restart_under_cmio')
            r = _cmp(res, 'resume', ref, got, skip)
            if r:
                res['detail'] += '\nstops=%s legs python=%s' % (stops, scn['leg_python'][:len(stops) + 1])
                return r
            res['sigs'].append('resume|%s|%s|%s|%d|%s' % (machine, scn['snap_fmt'], scn['cmio'], len(stops), scn['conv']))
        res['sigs'].append('play|%s|%s|%s|%s|%s|%s' % (machine, scn['snap_fmt'], scn['cmio'], scn['conv'], scn['prog']['style'], min(nframes, 5)))
    except ToolError as e:
        return fail(res, 'C20/tool-error', str(e))
    bump(res, 'frames', nframes)
    bump(res, 'sim_tstates', total_fetch * 6)
    hh = hashlib.sha256()
    for k in sorted(want):
        hh.update(k.encode()); hh.update(repr(want[k]).encode() if not isinstance(want[k], bytes) else want[k])
    h.update(hh.digest())
    res['digest'] = h.hexdigest()
    return res

def _simulate_stop(blocks, stop):
    """Mirror of rzxplay's frame counter: -> (frames counted when it stops, remaining blocks) or None if it never stops early."""
    if stop <= 0:
        return None
    count = 0
    for bi, frames in enumerate(blocks):
        idx = -1
        def next_frame():
            nonlocal idx, count
            idx += 1
            if idx > 0:
                count += 1
            while idx < len(frames):
                if frames[idx] > 0:
                    return idx
                idx += 1
                count += 1
            return -1
        f = next_frame()
        while f >= 0:
            f = next_frame()
            if count >= stop:
                return count, [frames[idx:]] + [list(b) for b in blocks[bi + 1:]]
    return None

def _pair_of_frame(pairs, idx):
    n = 0
    for pi, (ext, frames) in enumerate(pairs):
        if idx < n + len(frames):
            return pi
        n += len(frames)
    return len(pairs) - 1

def _z80_boundaries(scn, stops, pairs):
    """Boundaries (frame counts) at which a restart goes through a Z80-format embedded snapshot."""
    out = []
    for s in stops:
        # the snapshot type written by write_rzx is the type of the snapshot the player last loaded
        pi = _pair_of_frame(pairs, s - 1)
        ext = pairs[pi][0] if not (scn.get('flag4') and _flag4_ok(scn)) else pairs[0][0]
        if ext == 'z80':
            out.append(s)
    return out

def _any_z80(scn, stops, pairs):
    return bool(_z80_boundaries(scn, stops, pairs))

def sample(scn, res):
    return {'machine': scn['machine'], 'style': scn['prog']['style'], 'frames': scn['frames'], 'conv': scn['conv'], 'cmio': scn['cmio'],
            'snap_fmt': scn['snap_fmt'], 'stops': scn['stops'], 'second': scn['second'], 'reads': scn['reads'][:8]}

def shrink_candidates(scn):
    def cp():
        return json.loads(json.dumps(scn))
    n = len(scn['frames'])
    if scn.get('second'):
        c = cp(); c['second'] = None; yield c
    if len(scn.get('stops', [])) > 1:
        for i in range(len(scn['stops'])):
            c = cp(); del c['stops'][i]; yield c
    if n > 1:
        for m in (1, n // 2, n - 1):
            if 0 < m < n:
                c = cp(); c['frames'] = c['frames'][:m]; c['stops'] = [s for s in c['stops'] if s < m]
                if c.get('second') and c['second']['at'] >= m:
                    c['second'] = None
                yield c
    for i, f in enumerate(scn['frames']):
        if f.get('n', 0) > 8:
            c = cp(); c['frames'][i] = {'n': f['n'] // 2}; yield c
        if 'until' in f and f['max'] > 8:
            c = cp(); c['frames'][i]['max'] = f['max'] // 2; yield c
        if 't' in f:
            c = cp(); c['frames'][i] = {'n': 50}; yield c
    if scn.get('stops'):
        c = cp(); c['stops'] = []; yield c
    for k in ('cmio', 'rec_python', 'snap_compress', 'irb_compress', 'flag4'):
        if scn.get(k):
            c = cp(); c[k] = False; yield c
    if scn['conv']:
        c = cp(); c['conv'] = 0; yield c

def describe():
    return {
        'rule': 'one evaluation = one recording (generated program + seeded frame lengths, port readings, convention, snapshot format) played by rzxplay.main on both languages, stopped/dumped/resumed at seeded frames, and inspected by rzxinfo. Non-trivial = at least one fetch recorded. Distinct = distinct (mode, machine, snapshot format, cmio, convention, program style/stop count) tuples.',
        'assumptions': ['the recorder is harness code that follows the RZX conventions rzxplay documents (--flags help); it drives a real simulator core with int_active=0',
                        'recorder and players use the same engine family (plain or --cmio); languages are mixed freely',
                        'Z80 embedded snapshots drop MEMPTR: under --cmio the reference for such a restart is the recording replayed with MEMPTR:=0 at that boundary (scenario discarded if that changes the recorded path)'],
        'components': {'real': ['rzxplay.main (parse_rzx, process_block, RZXTracer, write_rzx, snapshot dump)', 'CSimulator.exec_frame / Python frame loop', 'rzxinfo.main', 'snapshot readers/writers', 'all four simulator cores'],
                       'harness': ['RZX recorder and encoder (zxsim/gen_rzx.py)', 'program generator'], 'stubbed': []},
        'probes': ['int_after_halt', 'int_after_ldair', 'ei_last_blocked', 'ei_last_accepted', 'zero_frames', 'repeat_markers', 'second_pair', 'frame_end_after_ei', 'frame_end_after_ldair', 'frame_end_after_prefix', 'frame_end_after_in'],
        'design_ref': 'DESIGN.md section 5, C20',
    }
