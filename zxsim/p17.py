"""C17 - skool macros expand with their documented semantics, identically in ASM and HTML mode.

Operation histories (#LET/#POKES/#PUSHS/#POPS/#DEF ... then readers) run on two replicas - a real
AsmWriter and a real HtmlWriter built the way skool2asm/skool2html build them - next to the reference
evaluator RefMacro.  After every step: both expansions equal the reference text (HTML after unescaping),
both memories equal the model memory.  No clock or fault exists here; histories are the explored dimension.
"""
import copy
import hashlib
import html
import io
import json
import os
import random
import shutil

from . import build, refmacro
from .harness import new_result, fail, bump

PROP = 'C17'
RUNS = {'quick': 12000, 'thorough': 400000}
BUDGET_S = {'quick': 150, 'thorough': 2400}
CHUNK = 20

SKOOL = """@start
@assemble=2,2
; Routine
c32768 LD A,1        ; comment
 32770 RET
; Data
b32771 DEFB {data}
t32800 DEFM "Hello world",0
 32812 DEFM "Tw","o"+128
"""

def init():
    global SkoolParser, AsmWriter, HtmlWriter, RefParser, FileInfo, skoolasm, skoolhtml, skoolmacro, SkoolParsingError, SkoolKitError
    from skoolkit.skoolparser import SkoolParser
    from skoolkit.skoolasm import AsmWriter
    from skoolkit.skoolhtml import HtmlWriter, FileInfo
    from skoolkit.refparser import RefParser
    from skoolkit import skoolasm, skoolhtml, skoolmacro, SkoolParsingError, SkoolKitError
    from skoolkit import skool2asm

PLACE_SKOOL = """@start
@assemble=2,2
@set-line-width=30000
{expands}; zqa:{t}:zqb
;
; zqc:{t}:zqd
;
; A zqe:{t}:zqf
c32768 LD A,1        ; zqg:{t}:zqh
; zqi:{t}:zqj
 32770 RET           ; done
; zqk:{t}:zql

; Data
b32771 DEFB {data}
t32800 DEFM "Hello world",0
 32812 DEFM "Tw","o"+128
"""

def gen_placement(rng, tier, index):
    return {'kind': 'placement', 'gseed': rng.getrandbits(48), 'npre': rng.choice((0, 1, 2, 4, 6)), 'base': rng.choice((0, 0, 10, 16)), 'case': rng.choice((0, 0, 1, 2)),
            'data': [rng.randrange(256) for _ in range(24)], 'depth': rng.choice((1, 2, 3, 3, 4))}

def _ws(s):
    return ' '.join(s.replace('\xa0', ' ').split())

def run_placement(scn, res, wd):
    """The same reading term placed in an entry title, description, register description, instruction comment,
    mid-block comment and block end comment of a skool file, expanded by skool2asm.main and skool2html.main; the state
    it depends on is established by @expand directives (run once by each writer)."""
    import re
    from skoolkit import skool2asm, skool2html
    skoolmacro._map_cache.clear()
    data = ','.join(str(b) for b in scn['data'])
    # model memory = what the parser assembles from the skeleton
    sf0 = os.path.join(wd, 'probe.skool')
    with open(sf0, 'w') as f:
        f.write(PLACE_SKOOL.format(expands='', t='x', data=data))
    mem0 = bytes(SkoolParser(sf0, asm_mode=1).snapshot[0:65536])
    model = refmacro.Model(mem0, scn['base'], scn['case'], 0)
    pre, term = scn.get('pre'), scn.get('term')
    if term is None:
        rng = random.Random(scn['gseed'])
        pre = []
        tries = 0
        while len(pre) < scn['npre'] and tries < 60:
            tries += 1
            tree = refmacro.Gen(rng, model).step(scn['depth'])
            if tree[0] not in ('let', 'lets', 'letd', 'letk', 'pokes', 'def'):
                continue
            trial = copy.deepcopy(model)
            try:
                text, _ = trial.apply(json.loads(json.dumps(tree)))
            except refmacro.Unsupported:
                continue
            model = trial
            pre.append(tree)
        term = None
        for _ in range(60):
            tree = refmacro.Gen(rng, model).S(scn['depth'])
            if _contains(tree, ('pc', 'while')):
                continue
            try:
                copy.deepcopy(model).apply(json.loads(json.dumps(tree)))
            except refmacro.Unsupported:
                continue
            term = tree
            break
        if term is None:
            res['discard'] = 'no reading term generated'
            return res
        scn['pre'], scn['term'] = pre, term
        model = refmacro.Model(mem0, scn['base'], scn['case'], 0)
    texts = []
    try:
        for tree in pre:
            texts.append(model.apply(json.loads(json.dumps(tree)))[0])
        ttext, want = model.apply(json.loads(json.dumps(term)))
    except refmacro.Unsupported:
        res['discard'] = 'unsupported after shrinking'
        return res
    if '\n' in ttext or any('\n' in t for t in texts):
        res['discard'] = 'newline in text'
        return res
    sf = os.path.join(wd, 'test.skool')
    with open(sf, 'w') as f:
        f.write(PLACE_SKOOL.format(expands=''.join('@expand=%s\n' % t for t in texts), t=ttext, data=data))
    opts = {0: [], 10: ['-D'], 16: ['-H']}[scn['base']] + {0: [], 1: ['-l'], 2: ['-u']}[scn['case']]
    out = io.StringIO()
    err = io.StringIO()
    import contextlib
    try:
        with contextlib.redirect_stdout(out), contextlib.redirect_stderr(err):
            skool2asm.main(opts + ['-q', sf])
        asm_text = out.getvalue()
        odir = os.path.join(wd, 'html')
        with contextlib.redirect_stdout(io.StringIO()), contextlib.redirect_stderr(err):
            skool2html.main(opts + ['-q', '-d', odir, sf])
    except (SystemExit, Exception) as e:
        return fail(res, 'C17/placement/error', 'tool raised %s: %s\n  pre: %s\n  term: %s' % (type(e).__name__, e, texts, ttext))
    html_text = ''
    for root, dirs, files in os.walk(odir):
        for fn in files:
            if fn == '32768.html':
                html_text = open(os.path.join(root, fn), encoding='utf-8').read()
    w_ = _ws(want)
    seen = 0
    for label, text, unesc in (('asm', asm_text, False), ('html', html_text, True)):
        for a, b, where in (('zqa:', ':zqb', 'title'), ('zqc:', ':zqd', 'description'), ('zqe:', ':zqf', 'register'), ('zqg:', ':zqh', 'instruction comment'), ('zqi:', ':zqj', 'mid-block comment'), ('zqk:', ':zql', 'end comment')):
            found = re.findall(a + '(.*?)' + b, text, re.S)
            if not found:
                return fail(res, 'C17/placement/%s/missing' % label, '%s output has no %s marker pair\n  term: %s' % (label, where, ttext))
            for g in found:
                if unesc:
                    g = html.unescape(g)
                else:
                    g = re.sub(r'\n\s*; ?', ' ', g)
                seen += 1
                if _ws(g) != w_:
                    return fail(res, 'C17/placement/%s' % label, '%s, %s: expansion %r differs from the documented result %r\n  pre: %s\n  term: %s' % (label, where, _ws(g), w_, texts, ttext))
    bump(res, 'placements_checked', seen)
    bump(res, 'events', 2)
    res['sigs'].append('placement|%s|%d|%d' % (macro_name(ttext), scn['base'], scn['case']))
    res['digest'] = hashlib.sha256((ttext + '|' + w_).encode()).hexdigest()
    return res

def _contains(tree, kinds):
    if isinstance(tree, list):
        if tree and tree[0] in kinds:
            return True
        return any(_contains(x, kinds) for x in tree)
    return False

def gen(rng, tier, index):
    if index % 6 == 5:
        return gen_placement(rng, tier, index)
    n = rng.choice((1, 2, 3, 5, 8, 13, 25)) if tier == 'quick' else rng.choice((1, 2, 3, 5, 8, 13, 25, 40))
    return {'kind': 'macro-history', 'gseed': rng.getrandbits(48), 'nsteps': n, 'base': rng.choice((0, 0, 10, 16)), 'case': rng.choice((0, 0, 1, 2)),
            'data': [rng.randrange(256) for _ in range(24)], 'depth': rng.choice((1, 2, 3, 3, 4))}

def make_writers(scn, wd):
    skool = SKOOL.format(data=','.join(str(b) for b in scn['data']))
    sf = os.path.join(wd, 'test.skool')
    with open(sf, 'w') as f:
        f.write(skool)
    from skoolkit.skool2asm import get_config as _gc  # noqa (config defaults)
    ap = SkoolParser(sf, case=scn['case'], base=scn['base'], asm_mode=1)
    props = dict(ap.properties)
    from skoolkit.config import get_config
    cfg = get_config('skool2asm')
    asm = AsmWriter(ap, props, {}, cfg)
    hp = SkoolParser(sf, case=scn['case'], base=scn['base'], html=True)
    ref = RefParser()
    odir = os.path.join(wd, 'html')
    os.makedirs(odir, exist_ok=True)
    htmlw = HtmlWriter(hp, ref, FileInfo(odir, 'test', False, False))
    return asm, htmlw

def norm(s):
    return s.replace('\xa0', ' ').strip()

def run(scn):
    res = new_result()
    wd = build.workdir()
    try:
        if scn['kind'] == 'placement':
            return run_placement(scn, res, wd)
        return _run(scn, res, wd)
    finally:
        shutil.rmtree(wd, ignore_errors=True)

def macro_name(text):
    import re
    m = re.match(r'#[A-Z]+', text)
    return m.group() if m else 'text'

def _run(scn, res, wd):
    skoolmacro._map_cache.clear()
    asm, htmlw = make_writers(scn, wd)
    mem0 = bytes(asm.snapshot[0:65536])
    if bytes(htmlw.snapshot[0:65536]) != mem0:
        raise RuntimeError('writers start from different memory images')
    model = refmacro.Model(mem0, scn['base'], scn['case'], 0)
    ops = scn.get('ops')
    generated = ops is None
    if generated:
        rng = random.Random(scn['gseed'])
        ops = []
    h = hashlib.sha256()
    i = 0
    nsteps = scn['nsteps'] if generated else len(ops)
    attempts = 0
    while i < nsteps:
        if generated:
            attempts += 1
            if attempts > nsteps * 6:
                break
            g = refmacro.Gen(rng, model)
            tree = g.step(scn['depth'])
        else:
            tree = ops[i]
        trial = copy.deepcopy(model)
        try:
            text, want = trial.apply(json.loads(json.dumps(tree)))
        except refmacro.Unsupported:
            if generated:
                continue
            i += 1
            bump(res, 'ops_skipped_unsupported')
            continue
        model = trial
        if generated:
            ops.append(tree)
        i += 1
        bump(res, 'events')
        bump(res, 'op:' + (tree[0] if isinstance(tree[0], str) else '?'))
        name = macro_name(text)
        outs = {}
        for label, w in (('asm', asm), ('html', htmlw)):
            try:
                if label == 'asm':
                    o = w.expand(text)
                else:
                    o = html.unescape(w.expand(html.escape(text, False), 'asm'))
            except (SkoolParsingError, SkoolKitError) as e:
                scn['ops'] = ops
                return fail(res, 'C17/%s/error/%s' % (label, name), '%s writer raised %s for step %d: %s\n  text: %s\n  expected: %r' % (label, type(e).__name__, i - 1, e, text, want))
            except Exception as e:
                scn['ops'] = ops
                return fail(res, 'C17/%s/exception/%s' % (label, name), '%s writer raised %s for step %d: %s\n  text: %s' % (label, type(e).__name__, i - 1, e, text))
            outs[label] = norm(o)
        w_ = norm(want)
        if outs['asm'] != outs['html']:
            scn['ops'] = ops
            return fail(res, 'C17/asm-vs-html/%s' % name, 'step %d: ASM and HTML expansions differ\n  text: %s\n  asm : %r\n  html: %r\n  ref : %r' % (i - 1, text, outs['asm'], outs['html'], w_))
        if outs['asm'] != w_:
            scn['ops'] = ops
            return fail(res, 'C17/vs-reference/%s' % name, 'step %d: expansion differs from the documented result\n  text: %s\n  got : %r\n  want: %r' % (i - 1, text, outs['asm'], w_))
        h.update(text.encode()); h.update(w_.encode())
        # memory: touched addresses every step, everything at the end
        for a in model.touched:
            for label, w in (('asm', asm), ('html', htmlw)):
                if w.snapshot[a] != model.mem[a]:
                    scn['ops'] = ops
                    return fail(res, 'C17/%s/memory' % label, 'step %d (%s): %s memory[%d]=%d, model %d' % (i - 1, text[:60], label, a, w.snapshot[a], model.mem[a]))
        res['sigs'].append('%s|%s|%d|%d' % (name, tree[0], scn['base'], scn['case']))
    for label, w in (('asm', asm), ('html', htmlw)):
        got = bytes(w.snapshot[0:65536])
        if got != bytes(model.mem):
            j = next(k for k in range(65536) if got[k] != model.mem[k])
            scn['ops'] = ops
            return fail(res, 'C17/%s/memory' % label, 'final %s memory[%d]=%d, model %d' % (label, j, got[j], model.mem[j]))
    scn['ops'] = ops
    res['digest'] = h.hexdigest()
    return res

def sample(scn, res):
    if scn['kind'] == 'placement':
        return {k: v for k, v in scn.items() if k != 'data'}
    return {'base': scn['base'], 'case': scn['case'], 'ops': scn.get('ops', [])[:6]}

def _simplify(tree):
    """Smaller variants of a term tree (subterm -> literal / text)."""
    if not isinstance(tree, list) or not tree:
        return
    if tree[0] in ('bin', 'peek', 'evali', 'ifi', 'var', 'dget') :
        yield ['lit', 1, 'd']
    if tree[0] in ('if', 'map', 'for', 'foreach', 'eval', 'n', 'format', 'call', 'chr', 'space'):
        yield ['t', 'x']
    for idx, sub in enumerate(tree):
        if isinstance(sub, list):
            for s in _simplify(sub):
                c = list(tree)
                c[idx] = s
                yield c

def shrink_candidates(scn):
    if scn['kind'] == 'placement':
        def cpp():
            return json.loads(json.dumps(scn))
        for i in range(len(scn.get('pre') or [])):
            c = cpp(); del c['pre'][i]; yield c
        k = 0
        for s_ in _simplify(scn.get('term')):
            k += 1
            if k > 40:
                break
            c = cpp(); c['term'] = s_; yield c
        return
    ops = scn.get('ops') or []
    def cp(newops):
        c = json.loads(json.dumps(scn)); c['ops'] = newops; return c
    n = len(ops)
    if n > 1:
        yield cp(ops[-1:])
        for i in range(n - 1):
            yield cp(ops[:i] + ops[i + 1:])
    if n:
        k = 0
        for s in _simplify(ops[-1]):
            k += 1
            if k > 40:
                break
            yield cp(ops[:-1] + [s])
    if scn['base']:
        c = cp(ops); c['base'] = 0; yield c
    if scn['case']:
        c = cp(ops); c['case'] = 0; yield c

def describe():
    return {
        'rule': 'one evaluation = one history of macro steps (state-changing #LET/#POKES/#PUSHS/#POPS/#DEF and reading terms generated from the macro grammar, nesting depth <= 4, all delimiter forms) executed on a real AsmWriter and a real HtmlWriter next to RefMacro; compared after every step. Distinct = distinct (outermost macro, term kind, base, case) tuples.',
        'assumptions': ['RefMacro encodes the documented semantics (sphinx/source/skool-macros.rst); only terms whose meaning the documentation fixes are generated',
                        'HTML expansion is compared after html.unescape and with &#160; treated as a space (documented #CHR/#SPACE differences); text is HTML-escaped (&, <, >) before it is given to the HtmlWriter, as the skool parser does',
                        '48K skool memory only; #BANK histories belong to C08'],
        'components': {'real': ['skoolmacro.expand_macros and parse_* for the listed macros', 'evaluate()', 'AsmWriter / HtmlWriter (fields, snapshot, _snapshots, pokes, macros)', 'SkoolParser'],
                       'reference': ['RefMacro (zxsim/refmacro.py)'], 'harness': ['term generator']},
        'probes': [],
        'design_ref': 'DESIGN.md section 5, C17',
    }
