"""Batch runner shared by all property drivers.

A driver module (zxsim.pNN) provides

  PROP                      property id, e.g. 'C10'
  RUNS                      {'quick': n, 'thorough': n}  number of scenarios
  BUDGET_S                  {'quick': s, 'thorough': s}  wall cap for the batch
  gen(rng, tier, index)     -> scenario (JSON-serialisable dict; no PRNG needed to run it)
  run(scn)                  -> result dict (see new_result)
  shrink_candidates(scn)    -> iterable of smaller scenarios (optional)
  neutralisers              {finding key: fn(scn) -> scn'} (optional)
  describe()                -> dict(rule=..., assumptions=[...], components={...}, design_ref=...)
  init()                    optional per-process initialisation (after build/import)
  extra_phases(tier, seed, agg)  optional additional deterministic work (e.g. Hypothesis machines)

Exit codes: 0 held (KNOWN-FINDING lines allowed); 1 + VIOLATION line; 2 + HARNESS-ERROR.
"""
import concurrent.futures
import faulthandler
import hashlib
import importlib
import json
import multiprocessing
import os
import signal
import subprocess
import sys
import time
import traceback

from . import build, prng

VERIF = os.path.dirname(os.path.dirname(os.path.abspath(__file__)))
# Evidence is written to /verif/evidence only by runs against /repo itself; trials against another tree (VERIF_REPO,
# seeded changes) and the determinism self-test (VERIF_EVIDENCE_DIR) write elsewhere so that they never replace it.
EVIDENCE_DIR = os.environ.get('VERIF_EVIDENCE_DIR') or (os.path.join(VERIF, 'out', 'evidence-other-tree') if os.environ.get('VERIF_REPO') else os.path.join(VERIF, 'evidence'))
REPLAY_DIR = os.path.join(VERIF, 'out', 'replays')
FINDINGS_FILE = os.path.join(VERIF, 'known_findings.json')

class HarnessError(Exception):
    pass

class RunTimeout(BaseException):
    """Raised by the per-run wall-clock guard.  Not an Exception: the drivers wrap tool calls in `except Exception`
    (a tool error is a verdict) and must not turn an expired guard into one."""
    pass

def new_result():
    return {
        'ok': True,            # False = violation of the property
        'vclass': None,        # stable violation class string, e.g. 'C10/final-state/regs.R'
        'detail': '',          # human-readable description of the violation
        'discard': None,       # reason string if the scenario was discarded (not counted as passed)
        'stats': {},           # counters: fault kinds fired, probes hit, events, T-states
        'sigs': [],            # strings identifying distinct non-trivial cases covered by this run
        'digest': '',          # hex digest of the canonical event stream / final state (determinism test)
    }

def fail(res, vclass, detail):
    if res['ok']:
        res['ok'] = False
        res['vclass'] = vclass
        res['detail'] = detail
    return res

class ChildKilled(Exception):
    pass

def in_child(fn, timeout):
    """Run fn() in a forked child and return its (picklable) result; raise ChildKilled if the child has to be killed.
    For calls into C code that cannot be interrupted by a signal handler: a defect there may turn into an endless loop."""
    import pickle, select, signal
    rfd, wfd = os.pipe()
    pid = os.fork()
    if pid == 0:
        try:
            os.close(rfd)
            signal.alarm(0)
            try:
                data = pickle.dumps(('ok', fn()))
            except BaseException as e:
                data = pickle.dumps(('exc', type(e).__name__, str(e)))
            while data:
                n = os.write(wfd, data)
                data = data[n:]
        finally:
            os._exit(0)
    os.close(wfd)
    chunks = []
    deadline = time.time() + timeout
    killed = False
    while True:
        left = deadline - time.time()
        rl = select.select([rfd], [], [], left)[0] if left > 0 else []
        if not rl:
            killed = True
            break
        b = os.read(rfd, 1 << 20)
        if not b:
            break
        chunks.append(b)
    os.close(rfd)
    if killed:
        try:
            os.kill(pid, signal.SIGKILL)
        except OSError:
            pass
    os.waitpid(pid, 0)
    if killed or not chunks:
        raise ChildKilled()
    return pickle.loads(b''.join(chunks))

def run_crashsafe(driver, scn, timeout=600):
    """Run one scenario in a forked child.  If the child is terminated by a signal (a crash inside the C engine is the
    realistic cause) the result is a violation of class <prop>/engine-crash/signal-N: deterministic, not a matter of
    wall-clock time.  A child that has to be killed for not returning is reported as a HANG discard."""
    import pickle, select, signal
    rfd, wfd = os.pipe()
    pid = os.fork()
    if pid == 0:
        try:
            os.close(rfd)
            signal.alarm(0)
            try:
                data = pickle.dumps(driver.run(scn))
            except BaseException:
                r = new_result()
                r['harness_exception'] = traceback.format_exc()
                data = pickle.dumps(r)
            while data:
                n = os.write(wfd, data)
                data = data[n:]
        finally:
            os._exit(0)
    os.close(wfd)
    chunks = []
    deadline = time.time() + timeout
    killed = False
    while True:
        left = deadline - time.time()
        rl = select.select([rfd], [], [], left)[0] if left > 0 else []
        if not rl:
            killed = True
            break
        b = os.read(rfd, 1 << 20)
        if not b:
            break
        chunks.append(b)
    os.close(rfd)
    if killed:
        try:
            os.kill(pid, signal.SIGKILL)
        except OSError:
            pass
    _, status = os.waitpid(pid, 0)
    if killed:
        r = new_result()
        r['discard'] = 'HANG: the scenario did not return and its process was killed'
        return r
    if os.WIFSIGNALED(status):
        sig = os.WTERMSIG(status)
        try:
            name = signal.Signals(sig).name
        except ValueError:
            name = str(sig)
        r = new_result()
        return fail(r, '%s/engine-crash/%s' % (driver.PROP, name), 'the process executing the scenario was terminated by %s (a crash inside the simulator core or a tool)' % name)
    if not chunks:
        r = new_result()
        r['harness_exception'] = 'child exited without a result'
        return r
    return pickle.loads(b''.join(chunks))

def bump(res, key, n=1):
    res['stats'][key] = res['stats'].get(key, 0) + n

def _alarm(signum, frame):
    raise RunTimeout()

_driver = None

def load_driver(prop):
    global _driver
    mod = importlib.import_module('zxsim.p' + prop[1:])
    if hasattr(mod, 'init'):
        mod.init()
    _driver = mod
    return mod

def run_guarded(driver, scn, timeout_s=300):
    """Run one scenario with a wall-clock guard. A timeout is a harness error, never a pass."""
    old = signal.signal(signal.SIGALRM, _alarm)
    signal.alarm(timeout_s)
    try:
        return driver.run(scn)
    finally:
        signal.alarm(0)
        signal.signal(signal.SIGALRM, old)

def _chunk(args):
    prop, tier, base_seed, indices = args
    driver = _driver
    findings = load_findings(prop)
    agg = {'stats': {}, 'sigs': set(), 'digests': [], 'violations': [], 'discards': {}, 'n': 0, 'samples': []}
    for i in indices:
        seed_i = prng.derive(base_seed, prop, i)
        rng = prng.random.Random(seed_i)
        scn = driver.gen(rng, tier, i)
        scn['seed'] = seed_i
        scn['index'] = i
        scn['property'] = prop
        try:
            res = run_guarded(driver, scn)
        except RunTimeout:
            # not fatal at once: other scenarios may still show a violation; at the end a batch with killed or timed-out
            # executions and no violation is a HARNESS-ERROR (exit 2), never a pass
            res = new_result()
            res['discard'] = 'HANG: a run exceeded the per-run wall-clock guard'
        except Exception:
            return {'error': 'exception in run %d (seed %d):\n%s' % (i, seed_i, traceback.format_exc()), 'scenario': scn}
        agg['n'] += 1
        for k, v in res['stats'].items():
            agg['stats'][k] = agg['stats'].get(k, 0) + v
        agg['digests'].append((i, res['digest']))
        if res['discard']:
            agg['discards'][res['discard']] = agg['discards'].get(res['discard'], 0) + 1
            continue
        agg['sigs'].update(res['sigs'])
        if not res['ok'] and findings:
            try:
                f = attribute(driver, scn, res['vclass'], findings)
            except (Exception, RunTimeout):
                f = None        # a neutraliser that cannot be applied attributes nothing
            if f is not None:
                k = 'known:' + f['key']
                agg['stats'][k] = agg['stats'].get(k, 0) + 1
                continue
        if not res['ok']:
            if len(agg['violations']) < 3:
                agg['violations'].append((i, scn, res['vclass'], res['detail']))
            else:
                agg['stats']['violations_not_kept'] = agg['stats'].get('violations_not_kept', 0) + 1
        elif len(agg['samples']) < 1 and hasattr(driver, 'sample'):
            agg['samples'].append(driver.sample(scn, res))
    agg['sigs'] = sorted(agg['sigs'])
    return agg

def load_findings(prop):
    try:
        with open(FINDINGS_FILE) as f:
            data = json.load(f)
    except FileNotFoundError:
        return []
    return [e for e in data.get('findings', []) if e.get('property') == prop]

def attribute(driver, scn, vclass, findings):
    """Counterfactual attribution: the violation belongs to a known finding only if
    neutralising that finding's effect in the same scenario makes it disappear."""
    neutralisers = getattr(driver, 'neutralisers', {})
    for f in findings:
        if f.get('status') != 'known':
            continue
        fn = neutralisers.get(f['key'])
        if not fn:
            continue
        scn2 = fn(json.loads(json.dumps(scn)))
        if scn2 is None:
            continue
        res2 = run_guarded(driver, scn2)
        if res2['ok'] and not res2['discard']:
            return f
    return None

def shrink(driver, scn, vclass, budget_s=60):
    """Greedy minimisation: keep a candidate only if the same violation class persists."""
    if not hasattr(driver, 'shrink_candidates'):
        return scn
    t_end = time.time() + budget_s
    cur = scn
    improved = True
    rounds = 0
    while improved and time.time() < t_end and rounds < 50:
        improved = False
        rounds += 1
        for cand in driver.shrink_candidates(cur):
            if time.time() > t_end:
                break
            try:
                r = run_guarded(driver, cand, 60)
            except (Exception, RunTimeout):
                continue
            if not r['ok'] and r['vclass'] == vclass and not r['discard']:
                cur = cand
                improved = True
                break
    return cur

def write_replay(prop, scn, vclass, detail):
    os.makedirs(REPLAY_DIR, exist_ok=True)
    scn = dict(scn)
    scn['expect'] = {'violation_class': vclass, 'detail': detail}
    path = os.path.join(REPLAY_DIR, '%s-%d.json' % (prop, scn.get('seed', 0)))
    with open(path, 'w') as f:
        json.dump(scn, f, indent=1, sort_keys=True)
    return path

def replay(prop, path):
    driver = load_driver(prop)
    with open(path) as f:
        scn = json.load(f)
    res = run_crashsafe(driver, scn, 600)
    if res.get('harness_exception'):
        print('HARNESS-ERROR property=%s replay raised:\n%s' % (prop, res['harness_exception']))
        return 2
    print('replay %s: ok=%s class=%s discard=%s' % (path, res['ok'], res['vclass'], res['discard']))
    if res['detail']:
        print(res['detail'])
    print('digest', res['digest'])
    if not res['ok']:
        print('VIOLATION property=%s replay=%s' % (prop, path))
        return 1
    return 0

def verify_replay_fresh(prop, path, vclass):
    """Replay the minimised file in a fresh interpreter; it must fail the same way."""
    cmd = [sys.executable, os.path.join(VERIF, 'check'), prop, '--replay', path]
    env = dict(os.environ)
    try:
        p = subprocess.run(cmd, capture_output=True, text=True, timeout=900, env=env)
    except subprocess.TimeoutExpired:
        return False, 'fresh replay timed out'
    ok = p.returncode == 1 and ('class=%s ' % vclass) in p.stdout
    return ok, p.stdout[-2000:] + p.stderr[-2000:]

def write_evidence(prop, tier, seed, coverage, assumptions, wall_s, violations):
    os.makedirs(EVIDENCE_DIR, exist_ok=True)
    ev = {
        'property_id': prop,
        'tier': tier,
        'seed': seed,
        'level': 'exploration',
        'coverage': coverage,
        'assumptions': assumptions,
        'wall_s': round(wall_s, 2),
        'violations': violations,
    }
    tmp = os.path.join(EVIDENCE_DIR, prop + '.json.tmp')
    with open(tmp, 'w') as f:
        json.dump(ev, f, indent=1, sort_keys=True)
    os.replace(tmp, os.path.join(EVIDENCE_DIR, prop + '.json'))

def _kill_pool(ex):
    for p in list(getattr(ex, '_processes', {}).values()):
        try:
            p.kill()
        except Exception:
            pass

def main(prop, tier, base_seed, jobs=None, runs=None, budget_s=None, digest_out=None):
    t_start = time.time()
    driver = load_driver(prop)
    jobs = jobs or int(os.environ.get('VERIF_JOBS', '0')) or min(16, os.cpu_count() or 1)
    n_runs = runs if runs is not None else int(os.environ.get('VERIF_RUNS', '0')) or driver.RUNS[tier]
    budget = budget_s if budget_s is not None else float(os.environ.get('VERIF_BUDGET_S', '0')) or driver.BUDGET_S[tier]
    findings = load_findings(prop)
    print('%s tier=%s VERIF_SEED=%d runs=%d jobs=%d budget=%.0fs repo=%s' % (prop, tier, base_seed, n_runs, jobs, budget, build.REPO))
    sys.stdout.flush()

    chunk_size = max(1, min(getattr(driver, 'CHUNK', 64), (n_runs + jobs * 4 - 1) // (jobs * 4)))
    chunks = [list(range(a, min(a + chunk_size, n_runs))) for a in range(0, n_runs, chunk_size)]
    total = {'stats': {}, 'sigs': set(), 'digests': [], 'violations': [], 'discards': {}, 'n': 0, 'samples': []}
    error = None
    skipped_chunks = 0
    ctx = multiprocessing.get_context('fork')
    ex = concurrent.futures.ProcessPoolExecutor(max_workers=jobs, mp_context=ctx)
    try:
        pending = {}
        it = iter(chunks)
        deadline = t_start + budget
        hard_deadline = deadline + max(900, 3 * budget)
        def submit_next():
            if time.time() > deadline:
                return False
            c = next(it, None)
            if c is None:
                return False
            fut = ex.submit(_chunk, (prop, tier, base_seed, c))
            fut._verif_first = c[0]
            pending[fut] = c
            return True
        for _ in range(jobs * 2):
            if not submit_next():
                break
        while pending:
            done, _ = concurrent.futures.wait(list(pending), timeout=5, return_when=concurrent.futures.FIRST_COMPLETED)
            if not done:
                if time.time() > hard_deadline:
                    error = 'wall-clock limit exceeded (a worker is stuck)'
                    break
                continue
            for fut in done:
                c_done = pending.pop(fut)
                try:
                    agg = fut.result()
                except concurrent.futures.process.BrokenProcessPool:
                    # a worker was killed by a signal: find the scenario that does it, one scenario per child process
                    suspects = [c_done] + [c for c in pending.values()]
                    crash = None
                    for c in suspects:
                        for i in c:
                            seed_i = prng.derive(base_seed, prop, i)
                            scn = driver.gen(prng.random.Random(seed_i), tier, i)
                            scn['seed'], scn['index'], scn['property'] = seed_i, i, prop
                            r = run_crashsafe(driver, scn, 300)
                            if not r['ok'] and '/engine-crash/' in (r['vclass'] or ''):
                                crash = (i, scn, r['vclass'], r['detail'])
                                break
                        if crash:
                            break
                    if crash:
                        total['violations'].append(crash)
                        total['crash'] = True
                        pending.clear()
                    else:
                        error = 'worker died and no single scenario reproduces it:\n' + traceback.format_exc()
                    break
                except Exception:
                    error = 'worker died:\n' + traceback.format_exc()
                    break
                if 'error' in agg:
                    error = agg['error']
                    break
                total['n'] += agg['n']
                for k, v in agg['stats'].items():
                    total['stats'][k] = total['stats'].get(k, 0) + v
                total['sigs'].update(agg['sigs'])
                total['digests'].extend(agg['digests'])
                total['violations'].extend(agg['violations'])
                for k, v in agg['discards'].items():
                    total['discards'][k] = total['discards'].get(k, 0) + v
                if len(total['samples']) < 3:
                    total['samples'].extend(agg['samples'][:1])
                submit_next()
            if error:
                break
        skipped_chunks = sum(1 for _ in it)
    finally:
        if error or total.get('crash'):
            _kill_pool(ex)
        ex.shutdown(wait=not (error or total.get('crash')), cancel_futures=True)
    if error:
        print('HARNESS-ERROR property=%s %s' % (prop, error))
        return 2

    # Optional additional deterministic phases run by the driver (e.g. Hypothesis state machines).
    if hasattr(driver, 'extra_phases'):
        try:
            driver.extra_phases(tier, base_seed, total, jobs, max(10.0, t_start + budget * 1.5 - time.time()))
        except Exception:
            print('HARNESS-ERROR property=%s extra phase failed:\n%s' % (prop, traceback.format_exc()))
            return 2

    total['digests'].sort()
    total['violations'].sort(key=lambda v: v[0])
    batch_digest = hashlib.sha256(json.dumps(total['digests']).encode()).hexdigest()
    if digest_out:
        with open(digest_out, 'w') as f:
            json.dump({'batch': batch_digest, 'runs': total['digests']}, f)

    # Known findings: canonical reproducers are run on every invocation.
    known_lines = []
    for f in findings:
        if f.get('status') == 'known' and f.get('reproducer'):
            r = run_guarded(driver, f['reproducer'], 600)
            if not r['ok']:
                known_lines.append('KNOWN-FINDING: property=%s %s' % (prop, f['what_fails']))
            else:
                print('note: reproducer of known finding %s no longer fails' % f['key'])

    # Violations attributed (in the workers, by counterfactual re-run) to a listed known finding
    for f in findings:
        if f.get('status') == 'known' and total['stats'].get('known:' + f['key']):
            line = 'KNOWN-FINDING: property=%s %s' % (prop, f['what_fails'])
            if line not in known_lines:
                known_lines.append(line)

    # Remaining violations: minimise, replay in a fresh process, report.
    reported = []
    seen_classes = set()
    for (i, scn, vclass, detail) in total['violations']:
        if vclass in seen_classes or len(reported) >= 3:
            continue
        seen_classes.add(vclass)
        if '/engine-crash/' in vclass:
            small, res = scn, {'ok': False, 'detail': detail}       # never re-run a crashing scenario in this process
        else:
            small = shrink(driver, scn, vclass)
            res = run_guarded(driver, small, 600)
            if res['ok']:
                small, res = scn, run_guarded(driver, scn, 600)
        path = write_replay(prop, small, vclass, res['detail'] or detail)
        ok, out = verify_replay_fresh(prop, path, vclass)
        if not ok:
            print('HARNESS-ERROR property=%s violation class %s (run %d) did not reproduce in a fresh process:\n%s' % (prop, vclass, i, out))
            print('first-run detail: %s' % detail)
            return 2
        reported.append((path, vclass, res['detail'] or detail))

    for line in known_lines:
        print(line)

    wall = time.time() - t_start
    desc = driver.describe()
    stats = dict(sorted(total['stats'].items()))
    sim_t = stats.get('sim_tstates', 0)
    coverage = {
        'evaluations': max(1, total['n']),
        'distinct_nontrivial': len(total['sigs']),
        'rule': desc['rule'],
        'samples': total['samples'] or [{'note': 'no sample recorded'}],
        'exhaustive': False,
        'runs_requested': n_runs,
        'runs_done': total['n'],
        'runs_skipped_by_wall_cap': skipped_chunks * chunk_size,
        'runs_per_hour': int(total['n'] / max(wall, 1e-3) * 3600),
        'seed_derivation': 'seed_i = splitmix64 chain(VERIF_SEED=%d, %s, i) for i in 0..%d' % (base_seed, prop, n_runs - 1),
        'first_run_seed': prng.derive(base_seed, prop, 0),
        'last_run_seed': prng.derive(base_seed, prop, max(0, n_runs - 1)),
        'simulated_tstates': sim_t,
        'simulated_spectrum_seconds': round(sim_t / 3500000.0, 3),
        'counters': stats,
        'fault_kinds_fired': {k[6:]: v for k, v in stats.items() if k.startswith('fault:')},
        'probes': {k[6:]: v for k, v in stats.items() if k.startswith('probe:')},
        'probes_stuck_at_zero': [p for p in desc.get('probes', []) if not stats.get('probe:' + p)],
        'discarded': total['discards'],
        'components': desc.get('components', {}),
        'batch_digest': batch_digest,
        'jobs': jobs,
        'known_finding_lines': known_lines,
        'violation_classes': [v[1] for v in reported],
    }
    for p in coverage['probes_stuck_at_zero']:
        print('warning: probe stuck at zero: %s' % p)
    hangs = {k: v for k, v in total['discards'].items() if k.startswith('HANG:')}
    if hangs and not reported:
        # an execution that had to be killed is neither a pass nor (a wall-clock limit never decides) a violation
        print('HARNESS-ERROR property=%s %d execution(s) did not return and were killed, no verdict: %s' % (prop, sum(hangs.values()), '; '.join(hangs)))
        return 2
    write_evidence(prop, tier, base_seed, coverage, desc.get('assumptions', []), wall, len(reported))
    print('%s: %d runs, %d distinct non-trivial cases, %d discarded, %.1fs, %d violation class(es)' % (
        prop, total['n'], len(total['sigs']), sum(total['discards'].values()), wall, len(reported)))
    for path, vclass, detail in reported:
        print('violation class: %s' % vclass)
        print(detail)
        print('VIOLATION property=%s replay=%s' % (prop, path))
    return 1 if reported else 0
