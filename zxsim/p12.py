"""C12 - a program converted to tape by bin2tap loads back to the same memory via tap2sna.

Producer (bin2tap.main) -> timed channel (tape edges, deck start/stop/pause) -> consumer (48K/128K ROM and the
loaders bin2tap emits, executing in the simulated machine under tap2sna's LoadTracer).  End-to-end delivery oracle.
"""
import hashlib
import json
import os
import random
import shutil

from . import build, prng, tapeload
from .harness import new_result, fail, bump

PROP = 'C12'
RUNS = {'quick': 2000, 'thorough': 40000}
BUDGET_S = {'quick': 150, 'thorough': 2400}
CHUNK = 6

def init():
    tapeload.init()

def gen_data(rng, n):
    kind = rng.choice((0, 1, 2, 3, 4, 4, 4, 5))
    if kind == 0:
        return {'rand': rng.getrandbits(48), 'len': n}
    if kind == 1:
        return {'fill': rng.choice((0xFF, 0x00, 0xED, 0x55)), 'len': n}
    if kind == 2:
        return {'runs': rng.getrandbits(48), 'len': n}
    if kind == 3:
        return {'ed': rng.getrandbits(48), 'len': n}
    if kind == 4:
        return {'rand': rng.getrandbits(48), 'len': n, 'tail': [rng.choice((0xED, 0xED, 0x00, 0xFF))] * rng.choice((1, 2, 3, 4, 5, 6))}
    return {'rand': rng.getrandbits(48), 'len': n}

def make_data(spec):
    n = spec['len']
    if 'fill' in spec:
        return bytes([spec['fill']]) * n
    if 'rand' in spec:
        d = random.Random(spec['rand']).randbytes(n)
        t = bytes(spec.get('tail', ()))[:max(0, n - 1)]
        return d[:n - len(t)] + t if t else d
    rng = random.Random(spec.get('runs', spec.get('ed')))
    out = bytearray()
    while len(out) < n:
        if 'ed' in spec:
            b = rng.choice((0xED, 0xED, 0x00, rng.randrange(256)))
        else:
            b = rng.randrange(256)
        out += bytes([b]) * rng.choice((1, 1, 2, 3, 5, 8, 40, 300))
    return bytes(out[:n])

def gen_config(rng, size, allow_slow):
    """A simulated-LOAD configuration (C13's space), sized so that slow engines get small programs."""
    cfg = {}
    fast = rng.random() < (0.55 if allow_slow else 1.0)
    cfg['fast-load'] = 1 if fast else 0
    python = rng.random() < 0.35
    cmio = rng.random() < 0.25
    if not fast:
        # real-time load: Python engines only for small programs
        if size > 700:
            python = False
        elif size > 250 and python:
            cfg['accelerator'] = 'auto'
    cfg['python'] = int(python)
    cfg['cmio'] = int(cmio)
    if 'accelerator' not in cfg:
        cfg['accelerator'] = rng.choice(('auto', 'auto', 'none', 'rom')) if not (python and not fast and size > 120) else 'auto'
    cfg['accelerate-dec-a'] = rng.choice((0, 1, 1, 2, 3))
    cfg['pause'] = rng.choice((0, 1, 1))
    cfg['polarity'] = rng.choice((0, 0, 1))
    cfg['first-edge'] = rng.choice((0, 0, 1, 1000, prng.log_uniform(rng, 1, 1000000)))
    cfg['finish-tape'] = rng.choice((0, 0, 1))
    return cfg

def _pick_7ffd(rng):
    v = rng.choice((0x10, 0x11, 0x17, 0x13, rng.randrange(64), rng.randrange(32)))
    if v & 0x20 and not v & 0x10:
        # lock + ROM 0: bin2tap's bank loader enables interrupts for two instructions after the final OUT; the 128K
        # editor ROM's interrupt routine cannot page ROM 1 any more and crashes, on a real machine as in the simulation
        v |= 0x10
    return v

def gen(rng, tier, index):
    kind = rng.choice(('48', '48', '48', '48clear', '48clear', '128'))
    big = 41984 if tier == 'thorough' else 12000
    scn = {'kind': kind, 'tape_fmt': rng.choice(('tap', 'pzx')), 'screen': rng.random() < 0.25, 'order_seed': rng.getrandbits(32)}
    if kind == '48':
        n = prng.log_uniform(rng, 1, big)
        org = rng.randrange(16384, 65536 - n + 1)
        if rng.random() < 0.5:
            org = rng.choice((16384, 23296, 65536 - n, 65536 - n, max(16384, 32768 - n), max(16384, 49152 - n), max(16384, 32768 - n // 2)))
            org = min(org, 65536 - n)
        start = rng.choice((org, org + rng.randrange(n), rng.randrange(16384, 65536)))
        r = rng.random()
        if r < 0.35:
            # data overlaps (some of) the four pre-filled stack bytes
            stack = org + rng.choice((1, 2, 3, 4, rng.randrange(1, n + 4)))
        elif r < 0.5:
            stack = org + n + rng.randrange(0, 5)
        elif r < 0.6:
            stack = rng.choice((16398, 16399, 16400, 65535, 65534, 0x5C00, 0x5B00))
        else:
            stack = rng.randrange(16398, 65536)
        stack = max(16398, min(65535, stack))
        # the 14 stack bytes must not lie on bin2tap's own 19-byte loader in the printer buffer (23296-23314): the
        # loader's PUSH would overwrite the loader itself.  The man page is silent; no placement of the loader could work.
        if 23296 < stack <= 23314 + 14:
            stack = rng.choice((23296, 23329, 23330, rng.randrange(23329, 65536)))
        # tap2sna stops the simulation the first time PC equals --start: a start address inside bin2tap's own
        # 20-byte loader at 23296 would stop it before the data block is loaded (inherent to stopping at an address)
        while 23296 <= start < 23316:
            start = rng.randrange(16384, 65536)
        scn.update({'data': gen_data(rng, n), 'org': org, 'start': start, 'stack': stack})
        if rng.random() < 0.3:
            b = rng.randrange(org, org + n)
            e = rng.randrange(b + 1, org + n + 1)
            scn.update({'begin': b, 'end': e})
            if not (b <= scn['start'] < 65536) or 23296 <= scn['start'] < 23316:
                scn['start'] = b if not 23296 <= b < 23316 else 40000
        scn['machine'] = '48'
    elif kind == '48clear':
        machine = rng.choice(('48', '48', '128'))
        # man page: 23952 on a bare 48K Spectrum; the screen option adds 20 bytes to the BASIC loader (the man page states
        # the +20 only for 128K tapes: 23957 / 23977), so with a loading screen the 48K floor used here is 23972
        lo = (23972 if scn['screen'] else 23952) if machine == '48' else (23977 if scn['screen'] else 23957)
        clear = rng.choice((lo, lo + 1, rng.randrange(lo, 65000), rng.randrange(lo, 40000)))
        n = prng.log_uniform(rng, 1, min(big, 65536 - clear - 1))
        org = rng.randrange(clear + 1, 65536 - n + 1)
        if rng.random() < 0.3:
            org = clear + 1
        elif rng.random() < 0.4:
            org = max(clear + 1, rng.choice((65536, 49152, 32768)) - n)
            if org + n > 65536:
                org = 65536 - n
        start = rng.choice((org, org + rng.randrange(n)))
        scn.update({'data': gen_data(rng, n), 'org': org, 'start': start, 'clear': clear, 'machine': machine})
    else:
        lo = 23977 if scn['screen'] else 23957
        clear = rng.choice((lo, lo + 1, rng.randrange(lo, 30000)))
        # [begin, end) inside banks 5/2; loader (<= 45 bytes) placed outside it, below 0xC000
        begin = rng.randrange(clear + 1 + 46, 49152 - 1)
        end = rng.choice((None, None, rng.randrange(begin + 1, 49153)))
        if (end or 49152) - begin > big:
            end = begin + prng.log_uniform(rng, 1, big)
        e = end or 49152
        if rng.random() < 0.5 or 49152 - e < 46:
            loader = rng.randrange(clear + 1, begin - 45)
        else:
            loader = rng.randrange(e, 49152 - 45)
        banks = rng.sample([0, 1, 3, 4, 6, 7], rng.randrange(0, 7))      # any order: --banks is a list, not a set
        if rng.random() < 0.4:
            banks.sort()
        use_banks = rng.random() < 0.7
        scn.update({'bank_seeds': [rng.getrandbits(48) for _ in range(8)], 'begin': begin, 'end': end, 'clear': clear, 'loader': loader,
                    'start': rng.choice([a for a in (rng.randrange(begin, e) for _ in range(8)) if not loader <= a < loader + 46] or [begin]), 'o7ffd': _pick_7ffd(rng),
                    'banks': banks if use_banks else None, 'machine': '128',
                    'default_loader': rng.random() < 0.15 and begin > clear + 1 + 46})
    size = scn['data']['len'] if 'data' in scn else ((scn['end'] or 49152) - scn['begin'] + 16384 * (len(scn['banks']) if scn['banks'] is not None else 6))
    if 'begin' in scn and 'data' in scn:
        size = scn['end'] - scn['begin']
    if scn['screen']:
        size += 6912
    scn['cfg'] = gen_config(rng, size, allow_slow=(tier == 'thorough' or size < 3000))
    scn['size'] = size
    return scn

def build_tape(scn, wd):
    """-> (tape path, expected dict) via bin2tap.main"""
    args = []
    exp = {}
    # the tape format is chosen from the file name extension by both tools, whatever its case
    ext = scn['tape_fmt']
    ext = (ext, ext.upper(), ext.capitalize())[scn['order_seed'] % 3]
    tape = os.path.join(wd, 'prog.' + ext)
    if scn['screen']:
        scr = random.Random(scn['order_seed']).randbytes(6912)
        scr_file = os.path.join(wd, 'screen.scr')
        with open(scr_file, 'wb') as f:
            f.write(scr)
        args += ['--screen', scr_file]
        exp['screen'] = scr
    if scn['kind'] in ('48', '48clear'):
        data = make_data(scn['data'])
        binf = os.path.join(wd, 'prog.bin')
        with open(binf, 'wb') as f:
            f.write(data)
        args += ['--org', str(scn['org']), '--start', str(scn['start'])]
        b, e = scn['org'], scn['org'] + len(data)
        if 'begin' in scn:
            args += ['--begin', str(scn['begin']), '--end', str(scn['end'])]
            b, e = scn['begin'], scn['end']
        if scn['kind'] == '48':
            args += ['--stack', str(scn['stack'])]
        else:
            args += ['--clear', str(scn['clear'])]
        exp['begin'], exp['end'] = b, e
        exp['data'] = data[b - scn['org']:e - scn['org']]
    else:
        banks = [random.Random(s).randbytes(16384) for s in scn['bank_seeds']]
        binf = os.path.join(wd, 'prog128.bin')
        with open(binf, 'wb') as f:
            f.write(b''.join(banks))
        args += ['--7ffd', str(scn['o7ffd']), '--begin', str(scn['begin']), '--clear', str(scn['clear']), '--start', str(scn['start'])]
        if scn['end'] is not None:
            args += ['--end', str(scn['end'])]
        if not scn.get('default_loader'):
            args += ['--loader', str(scn['loader'])]
        if scn['banks'] is not None:
            args += ['--banks', ','.join(str(b) for b in scn['banks']) or ',']
        e = scn['end'] or 49152
        low = banks[5] + banks[2]
        exp['begin'], exp['end'] = scn['begin'], e
        exp['data'] = low[scn['begin'] - 16384:e - 16384]
        req = scn['banks'] if scn['banks'] is not None else [0, 1, 3, 4, 6, 7]
        exp['banks'] = {b: banks[b] for b in req}
        exp['o7ffd'] = scn['o7ffd']
        if scn.get('default_loader'):
            # documented: the bank loader (39 + number of banks bytes) is placed at CLEAR+1 and loaded after the main block
            exp['loader_range'] = (scn['clear'] + 1, scn['clear'] + 1 + 39 + len(req))
    tapeload.run_tool(tapeload.bin2tap, args + [binf, tape])
    return tape, exp

def check_delivery(scn, exp, snap, st):
    """-> None or (class suffix, detail)"""
    is128 = scn['machine'] == '128'
    if is128:
        ram = snap.ram(-1)
        banks = [bytes(ram[i * 16384:(i + 1) * 16384]) for i in range(8)]
        o7 = snap.out7ffd
        mem = bytes(16384) + banks[5] + banks[2] + banks[o7 & 7]
    else:
        mem = bytes(16384) + bytes(snap.ram())
    b, e = exp['begin'], exp['end']
    skip = set()
    if scn['kind'] == '48':
        # the man page says 14 bytes; when the frame interrupt lands between EI and POP AF in SA/LD-RET the ROM's
        # interrupt routine pushes down to STACK-18 (measured), on a real machine just as in the simulation
        skip = set(range(scn['stack'] - 18, scn['stack']))
        # ... and that interrupt routine (keyboard scan, frame counter) writes KSTATE/LAST-K, FLAGS and FRAMES
        skip |= set(range(23552, 23562)) | {23611} | set(range(23672, 23675))
    if 'loader_range' in exp:
        skip |= set(range(*exp['loader_range']))
    if scn['kind'] == '128' and e > 49152:
        e = 49152
    for a in range(b, e):
        if a in skip:
            continue
        if mem[a] != exp['data'][a - b]:
            return 'data', 'memory[%d]=%d, binary has %d (range %d-%d)' % (a, mem[a], exp['data'][a - b], b, e)
    if snap.pc != scn['start']:
        return 'pc', 'PC=%d, requested start %d' % (snap.pc, scn['start'])
    if scn['kind'] == '48' and snap.sp != scn['stack']:
        return 'sp', 'SP=%d, requested stack %d' % (snap.sp, scn['stack'])
    if 'banks' in exp:
        for bn, data in exp['banks'].items():
            if banks[bn] != data:
                j = next(i for i in range(16384) if banks[bn][i] != data[i])
                return 'bank', 'RAM bank %d offset %d = %d, source has %d' % (bn, j, banks[bn][j], data[j])
        if snap.out7ffd != exp['o7ffd']:
            return '7ffd', 'port 0x7FFD holds %d, requested %d' % (snap.out7ffd, exp['o7ffd'])
    return None

def run(scn):
    res = new_result()
    wd = build.workdir()
    try:
        return _run(scn, res, wd)
    except tapeload.Hang as e:
        res['discard'] = 'HANG: simulated LOAD on the C engine did not return and was killed'
        res['detail'] = str(e)
        return res
    finally:
        shutil.rmtree(wd, ignore_errors=True)

def _run(scn, res, wd):
    try:
        tape, exp = build_tape(scn, wd)
        cfg = dict(scn['cfg'])
        cfg['machine'] = scn['machine']
        cfg['timeout'] = 90 + scn['size'] // 100
        tapeload.set_accelerator_order(scn['order_seed'])
        out, st, snap = tapeload.load(tape, scn['start'], cfg, os.path.join(wd, 'out.' + ('szx' if scn['order_seed'] & 1 else 'z80')))
    except tapeload.ToolError as e:
        return fail(res, 'C12/tool-error', str(e))
    text = tapeload.stripped(out)
    if 'PC at start address' not in text and scn['kind'] == '48' and scn['stack'] < 16384 + 22:
        # Hazard of the documented minimum stack (man page: 14 bytes): SA/LD-RET re-enables interrupts before its
        # POP AF / RET; if the frame interrupt lands there the ROM's interrupt routine pushes 18 more bytes, and
        # with STACK below 16406 some of them fall into ROM and are lost - on a real machine just as here.  That is
        # a matter of where the frame interrupt lands, not of the tape: counterfactual = the same load with the
        # whole tape shifted against the frame.  Only if a shifted load does reach the start address is the
        # scenario discarded.
        for delta in (23456, 46913):
            cfg2 = dict(cfg)
            cfg2['first-edge'] = cfg.get('first-edge', 0) + delta
            try:
                out2, st2, snap2 = tapeload.load(tape, scn['start'], cfg2, os.path.join(wd, 'shifted.szx'))
            except tapeload.ToolError:
                continue
            if 'PC at start address' in tapeload.stripped(out2):
                res['discard'] = 'frame interrupt inside SA/LD-RET with fewer than 22 bytes of stack above the ROM (STACK < 16406)'
                return res
    if 'PC at start address' not in text:
        return fail(res, 'C12/not-started', 'simulated LOAD did not reach the start address %d: %s' % (scn['start'], text.strip().splitlines()[-3:]))
    bad = check_delivery(scn, exp, snap, st)
    if bad:
        return fail(res, 'C12/' + bad[0], '%s\nkind=%s machine=%s cfg=%s tape=%s screen=%s' % (bad[1], scn['kind'], scn['machine'], scn['cfg'], scn['tape_fmt'], scn['screen']))
    c = scn['cfg']
    for k in ('fast-load', 'python', 'cmio', 'pause', 'polarity', 'finish-tape'):
        if c.get(k):
            bump(res, 'fault:cfg_%s' % k)
    if c.get('first-edge'):
        bump(res, 'fault:CHANNEL_DELAY')
    if c['accelerator'] != 'auto':
        bump(res, 'fault:cfg_accelerator_' + c['accelerator'])
    for name, hits in (st.get('acc_hits') or {}).items():
        bump(res, 'probe:accelerator_hit_' + name, hits)
    if st.get('dec_a_jr_hits'):
        bump(res, 'probe:dec_a_jr_hits', st['dec_a_jr_hits'])
    if scn['kind'] == '48' and exp['begin'] < scn['stack'] <= exp['end'] + 3:
        bump(res, 'probe:data_overlaps_prefilled_stack')
    bump(res, 'bytes_delivered', exp['end'] - exp['begin'])
    t = st['regs'][25] if 'regs' in st else 0
    bump(res, 'sim_tstates', t)
    res['sigs'].append('%s|%s|%s|fl%s py%s cm%s|scr%s|%d' % (scn['kind'], scn['machine'], scn['tape_fmt'], c['fast-load'], c['python'], c['cmio'], int(scn['screen']), min(len(str(scn['size'])), 5)))
    h = hashlib.sha256()
    h.update(text.replace(wd, '<wd>').encode())
    h.update(repr(st.get('regs')).encode())
    res['digest'] = h.hexdigest()
    return res

def sample(scn, res):
    return {k: v for k, v in scn.items() if k not in ('bank_seeds',)}

def shrink_candidates(scn):
    def cp():
        return json.loads(json.dumps(scn))
    if scn['screen']:
        c = cp(); c['screen'] = False; yield c
    if 'data' in scn and scn['data']['len'] > 1 and 'begin' not in scn:
        for n in (1, scn['data']['len'] // 2, scn['data']['len'] - 1):
            if 0 < n < scn['data']['len']:
                c = cp(); c['data']['len'] = n
                if c['start'] >= c['org'] + n and c['kind'] == '48clear':
                    c['start'] = c['org']
                yield c
    for k, dflt in (('python', 0), ('cmio', 0), ('pause', 1), ('polarity', 0), ('first-edge', 0), ('finish-tape', 0), ('accelerate-dec-a', 1), ('accelerator', 'auto'), ('fast-load', 1)):
        if scn['cfg'].get(k) != dflt:
            c = cp(); c['cfg'][k] = dflt; yield c
    if scn['tape_fmt'] != 'tap':
        c = cp(); c['tape_fmt'] = 'tap'; yield c
    if scn.get('banks'):
        for i in range(len(scn['banks'])):
            c = cp(); del c['banks'][i]; yield c

def describe():
    return {
        'rule': 'one evaluation = one tape made by bin2tap.main from a generated binary/option set inside the documented envelope and loaded by tap2sna.main under a drawn simulated-LOAD configuration; delivery oracle on the written snapshot. Distinct = distinct (tape kind, machine, tape format, fast-load/python/cmio, screen, size magnitude) tuples.',
        'assumptions': ['envelope from the bin2tap man page: STACK >= 16398; CLEAR >= 23952 (48K) / 23957 / 23977 (128K without/with screen); data above CLEAR; STACK-14..STACK-1 not compared without CLEAR',
                        '128K tapes: the bank loader is kept outside [BEGIN, END) (documented default placement inside the data overwrites those bytes, which is excluded from the comparison when drawn); --7ffd values 0..63',
                        'tapes without CLEAR are loaded on the 48K machine only (the man page does not promise them for 128K)'],
        'components': {'real': ['bin2tap.main', 'tape.write_tap/write_pzx', 'tap2sna.main (parsers, sim_load, LoadTracer, KeyboardTracer, fast load, accelerators)', '48K/128K ROMs executing LOAD', 'snapshot writer/reader'],
                       'harness': ['binary/option generator', 'seeded Accelerator.__hash__ (iteration order of the accelerator set)'], 'stubbed': []},
        'probes': ['data_overlaps_prefilled_stack', 'accelerator_hit_rom', 'dec_a_jr_hits'],
        'design_ref': 'DESIGN.md section 5, C12',
    }
