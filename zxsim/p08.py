"""C08 - simulated code cannot corrupt ROM, break register ranges or mis-page 128K RAM.

Workload A: invariants monitored after every event of lock-step runs (all replicas).
Workload B: pager histories (Hypothesis stateful machines) against RefPaging  - see p08_hist.py.
"""
import hashlib

from . import gen_lock, lockstep, p08_hist
from .harness import new_result, fail, bump

PROP = 'C08'
RUNS = {'quick': 24000, 'thorough': 1200000}
BUDGET_S = {'quick': 120, 'thorough': 2000}
CHUNK = 100
PROPS = {'C08'}

def init():
    lockstep.init()
    p08_hist.init()

N_PAIRS = {'quick': 420, 'thorough': p08_hist.pairs_total()}

def gen(rng, tier, index):
    if index < N_PAIRS[tier]:
        # exhaustive length-2 pager histories: thorough enumerates all (copy, engine, v1); quick draws a seeded subset
        return p08_hist.gen_pairs(index if tier == 'thorough' else rng.randrange(p08_hist.pairs_total()))
    if index % 4 == 3:
        return p08_hist.gen(rng, tier, index // 4)
    index = index - index // 4 - 1 if index % 4 == 3 else index - index // 4
    if index % 8 < 5:
        scn = gen_lock.gen_wstep(rng, tier, index // 8 * 5 + index % 8, align=rng.random() < 0.5)
        # hostile stores: aim pointers at the ROM / RAM boundary more often than the general generator does
        if rng.random() < 0.5:
            regs = scn['regs']
            for hi in (2, 4, 6, 8, 10):
                if rng.random() < 0.6:
                    v = rng.choice((0x3FFD, 0x3FFE, 0x3FFF, 0x4000, 0x0000, 0x0001, 0xFFFF, rng.randrange(0x4000)))
                    if hi >= 8:
                        d = scn['mem']['patches'][-1]
                        v = (v - rng.randrange(-128, 128)) & 0xFFFF
                    regs[hi], regs[hi + 1] = v >> 8, v & 0xFF
            if rng.random() < 0.6:
                regs[12] = rng.choice((0x4000, 0x4001, 0x4002, 0x0001, 0x0002, 0x0000, 0x3FFF, rng.randrange(0x4001)))
    else:
        scn = gen_lock.gen_wprog(rng, tier, index, max_steps=400)
    if scn['machine'] != '48K' and rng.random() < 0.9:
        scn['tracer']['present'] = True
    return scn

def run(scn):
    if scn['kind'] in ('pager-sim', 'skool-memory', 'pager-pairs'):
        return p08_hist.run(scn)
    res = new_result()
    sigs = set()
    try:
        lockstep.run(scn, PROPS, res['stats'], sigs)
    except lockstep.Violation as v:
        return fail(res, v.vclass, v.detail)
    res['sigs'] = ['%s|%s|%s' % (scn['kind'], scn.get('slot', scn['steps']), scn['machine'])]
    res['digest'] = hashlib.sha256(repr(sorted(res['stats'].items())).encode()).hexdigest()
    return res

def sample(scn, res):
    if scn['kind'] in ('pager-sim', 'skool-memory', 'pager-pairs'):
        return {k: v for k, v in scn.items() if k != 'banks'}
    return {'kind': scn['kind'], 'machine': scn['machine'], 'slot': scn.get('slot'), 'steps': scn['steps'], 'ints': scn['ints'],
            'regs': scn['regs'], 'o7ffd': scn['mem'].get('o7ffd'), 'patches': scn['mem']['patches'][-1:]}

def shrink_candidates(scn):
    if scn['kind'] in ('pager-sim', 'skool-memory', 'pager-pairs'):
        return p08_hist.shrink_candidates(scn)
    return gen_lock.shrink_candidates(scn)

def describe():
    return {
        'rule': 'Workload A: every event of every lock-step run (W-step over the 1792 slots with pointers aimed at the ROM/RAM boundary; W-prog programs) is followed by the invariants: ROM digest unchanged, every register in range, T not decreased, Python-visible mapping == last accepted 0x7FFD write (model driven by the replica\'s own OUT log), no write into a bank that was not visible. Workload B: Hypothesis pager histories on every copy of the paging logic against RefPaging. Distinct = distinct (kind, slot or length, machine) + distinct history shapes.',
        'assumptions': ['C replicas: internal bank pointers are observed through executed loads (workload B) and through the Python-visible Memory object (workload A)',
                        'register range limits: 8-bit 0..255, SP/PC/MEMPTR 0..65535, IFF/HALT 0..1, IM 0..2'],
        'components': {'real': ['Simulator', 'CSimulator', 'CMIOSimulator', 'CCMIOSimulator', 'pagingtracer.Memory/PagingTracer', 'trace.Tracer._write_port', 'rzxplay.RZXTracer', 'skoolmacro.PagingTracer/AudioTracer128', 'skoolutils.Memory'],
                       'reference': ['RefPaging'], 'harness': ['World tracer', 'generators']},
        'probes': ['paging_write_after_lock', 'write_after_lock', 'near_miss_port'],
        'design_ref': 'DESIGN.md section 5, C08',
    }
