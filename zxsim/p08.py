"""C08 - simulated code cannot corrupt ROM, break register ranges or mis-page 128K RAM.

Workload A: invariants monitored after every event of lock-step runs (all replicas).
Workload B: pager histories (Hypothesis stateful machines) against RefPaging  - see p08_hist.py.
"""
import hashlib

from . import gen_lock, lockstep, p08_hist, p05
from .harness import new_result, fail, bump

PROP = 'C08'
RUNS = {'quick': 32000, 'thorough': 1200000}
BUDGET_S = {'quick': 200, 'thorough': 2000}
CHUNK = 100
PROPS = {'C08'}

def init():
    lockstep.init()
    p08_hist.init()
    from . import gen_tzx, tapeload
    tapeload.init()
    gen_tzx.init()

N_PAIRS = {'quick': 420, 'thorough': p08_hist.pairs_total()}

def gen(rng, tier, index):
    if index < N_PAIRS[tier]:
        # exhaustive length-2 pager histories: thorough enumerates all (copy, engine, v1); quick draws a seeded subset
        return p08_hist.gen_pairs(index if tier == 'thorough' else rng.randrange(p08_hist.pairs_total()))
    if index % 640 == 201:
        from . import gen_tzx
        return gen_tzx.gen_press(rng, tier, index)
    if index % 4 == 2:
        # boundary-value register sweep of one dispatch slot on one replica, judged by the range invariants only;
        # enumerated engine-major so that a quick batch covers every slot of the C, Python and contended C engines
        k = index // 4
        scn = p05.gen_regsweep(rng, tier, (k % gen_lock.N_SLOTS) * 4)
        scn['kind'] = 'range-sweep'
        scn['engine'] = ('c', 'py', 'ccmio', 'pycmio', 'pyfast')[(k // gen_lock.N_SLOTS) % 5]
        return scn
    if index % 4 == 3:
        return p08_hist.gen(rng, tier, index // 4)
    index = index - index // 4 - 1 if index % 4 == 3 else index - index // 4
    if index % 8 < 5:
        scn = gen_lock.gen_wstep(rng, tier, index // 8 * 5 + index % 8, align=rng.random() < 0.5)
        # hostile stores: aim pointers at the ROM / RAM boundary more often than the general generator does
        if rng.random() < 0.5:
            regs = scn['regs']
            for hi in (2, 4, 6, 8, 10):
                if rng.random() < 0.6:
                    v = rng.choice((0x3FFD, 0x3FFE, 0x3FFF, 0x4000, 0x0000, 0x0001, 0xFFFF, rng.randrange(0x4000)))
                    if hi >= 8:
                        d = scn['mem']['patches'][-1]
                        v = (v - rng.randrange(-128, 128)) & 0xFFFF
                    regs[hi], regs[hi + 1] = v >> 8, v & 0xFF
            if rng.random() < 0.6:
                regs[12] = rng.choice((0x4000, 0x4001, 0x4002, 0x0001, 0x0002, 0x0000, 0x3FFF, rng.randrange(0x4001)))
    else:
        scn = gen_lock.gen_wprog(rng, tier, index, max_steps=400)
    if scn['machine'] != '48K' and rng.random() < 0.9:
        scn['tracer']['present'] = True
    return scn

def run_range_sweep(scn):
    import random
    res = new_result()
    rng = random.Random(scn['cseed'])
    mem = {'machine': '48K', 'ram': {'fill': 0}, 'patches': [[scn['pc'], bytes(scn['code']).hex()]]}
    base = {'kind': 'wstep', 'machine': '48K', 'mem': mem, 'regs': [0] * 30, 'tracer': {'present': True, 'in_r_c': True, 'ini': True}, 'reads': [0xFF], 'steps': 1, 'ints': [], 'replicas': [scn['engine']]}
    st = lockstep.materialise_state(base)
    rp = lockstep.get_replica(scn['engine'], '48K')
    rp.reset(st)
    regs = rp.sim.registers
    rom = bytes(rp.sim.memory[0:0x4000])
    limits = [255] * 12 + [65535, 65535, 255, 255] + [255] * 8 + [65535, None, 1, 2, 1, 65535]
    memory = rp.sim.memory
    code = scn['code']
    for case in range(scn['cases']):
        state = p05.sweep_state(rng, scn['pc'])
        if case:
            # same dispatch slot, fresh operand bytes (immediate addresses are drawn from the boundary targets half the time)
            code = gen_lock.slot_bytes(rng, scn['slot'])
            for i, b in enumerate(code):
                memory[(scn['pc'] + i) & 0xFFFF] = b
        for i, v in enumerate(state):
            regs[i] = v
        if rp.world is not None:
            rp.world.n = 0
            del rp.world.log[:]
        try:
            rp.step()
        except Exception as e:
            return fail(res, 'C08/exception/%s/%s' % (scn['engine'], type(e).__name__), '%s raised %s: %s for code %s\n pre: %s' % (scn['engine'], type(e).__name__, e, bytes(code).hex(), lockstep._fmt_regs(state)))
        got = rp.regs()
        bump(res, 'events')
        bump(res, 'range_sweep_cases')
        for i, v in enumerate(got):
            if i == 13:
                continue
            lim = limits[i]
            if v < 0 or (lim is not None and v > lim):
                return fail(res, 'C08/range/%s' % lockstep.REGNAMES[i], '%s: register %s=%d out of range after code %s (boundary sweep case %d)\n pre: %s' % (
                    scn['engine'], lockstep.REGNAMES[i], v, bytes(code).hex(), case, lockstep._fmt_regs(state)))
        if got[25] < state[25]:
            return fail(res, 'C08/clock-decreased', '%s: T went from %d to %d after code %s' % (scn['engine'], state[25], got[25], bytes(scn['code']).hex()))
    try:
        now = bytes(rp.sim.memory[0:0x4000])
        bytes(rp.sim.memory[0x4000:0x10000])
    except ValueError as e:
        return fail(res, 'C08/range/memory', '%s: a memory cell left 0..255 after code %s: %s' % (scn['engine'], bytes(scn['code']).hex(), e))
    if now != rom:
        j = next(i for i in range(0x4000) if now[i] != rom[i])
        return fail(res, 'C08/rom-modified', '%s: ROM byte %d changed from %d to %d by code %s' % (scn['engine'], j, rom[j], now[j], bytes(scn['code']).hex()))
    res['sigs'] = ['range-sweep|%d|%s' % (scn['slot'], scn['engine'])]
    res['digest'] = hashlib.sha256(('%d|%s' % (scn['slot'], scn['cases'])).encode()).hexdigest()
    return res

def run(scn):
    if scn['kind'] == 'range-sweep':
        return run_range_sweep(scn)
    if scn['kind'] in ('pager-sim', 'skool-memory', 'pager-pairs', 'press128'):
        return p08_hist.run(scn)
    res = new_result()
    sigs = set()
    try:
        lockstep.run(scn, PROPS, res['stats'], sigs)
    except lockstep.Violation as v:
        return fail(res, v.vclass, v.detail)
    res['sigs'] = ['%s|%s|%s' % (scn['kind'], scn.get('slot', scn['steps']), scn['machine'])]
    res['digest'] = hashlib.sha256(repr(sorted(res['stats'].items())).encode()).hexdigest()
    return res

def sample(scn, res):
    if scn['kind'] == 'range-sweep':
        return scn
    if scn['kind'] in ('pager-sim', 'skool-memory', 'pager-pairs', 'press128'):
        return {k: v for k, v in scn.items() if k != 'banks'}
    return {'kind': scn['kind'], 'machine': scn['machine'], 'slot': scn.get('slot'), 'steps': scn['steps'], 'ints': scn['ints'],
            'regs': scn['regs'], 'o7ffd': scn['mem'].get('o7ffd'), 'patches': scn['mem']['patches'][-1:]}

def shrink_candidates(scn):
    if scn['kind'] == 'range-sweep':
        return []
    if scn['kind'] in ('pager-sim', 'skool-memory', 'pager-pairs', 'press128'):
        return p08_hist.shrink_candidates(scn)
    return gen_lock.shrink_candidates(scn)

def describe():
    return {
        'rule': 'Workload A: every event of every lock-step run (W-step over the 1792 slots with pointers aimed at the ROM/RAM boundary; W-prog programs) is followed by the invariants: ROM digest unchanged, every register in range, T not decreased, Python-visible mapping == last accepted 0x7FFD write (model driven by the replica\'s own OUT log), no write into a bank that was not visible. Workload B: Hypothesis pager histories on every copy of the paging logic against RefPaging. Distinct = distinct (kind, slot or length, machine) + distinct history shapes.',
        'assumptions': ['C replicas: internal bank pointers are observed through executed loads (workload B) and through the Python-visible Memory object (workload A)',
                        'register range limits: 8-bit 0..255, SP/PC/MEMPTR 0..65535, IFF/HALT 0..1, IM 0..2'],
        'components': {'real': ['Simulator', 'CSimulator', 'CMIOSimulator', 'CCMIOSimulator', 'pagingtracer.Memory/PagingTracer', 'trace.Tracer._write_port', 'rzxplay.RZXTracer', 'skoolmacro.PagingTracer/AudioTracer128', 'skoolutils.Memory'],
                       'reference': ['RefPaging'], 'harness': ['World tracer', 'generators']},
        'probes': ['paging_write_after_lock', 'write_after_lock', 'near_miss_port'],
        'design_ref': 'DESIGN.md section 5, C08',
    }
