"""Seed derivation. The only source of randomness in the harness.

seed(run i) = splitmix64 chain over (VERIF_SEED, property id, i).  Every run owns
one random.Random(seed_i); nothing else (no module-level random, no os.urandom,
no clocks) feeds a decision.
"""
import random

MASK = (1 << 64) - 1

def splitmix64(x):
    x = (x + 0x9E3779B97F4A7C15) & MASK
    z = x
    z = ((z ^ (z >> 30)) * 0xBF58476D1CE4E5B9) & MASK
    z = ((z ^ (z >> 27)) * 0x94D049BB133111EB) & MASK
    return z ^ (z >> 31)

def derive(base_seed, prop, index, stream=0):
    h = splitmix64(base_seed & MASK)
    for ch in prop.encode():
        h = splitmix64(h ^ ch)
    h = splitmix64(h ^ (stream & MASK))
    h = splitmix64(h ^ (index & MASK))
    return h

def rng_for(base_seed, prop, index, stream=0):
    return random.Random(derive(base_seed, prop, index, stream))

def log_uniform(rng, lo, hi):
    """Integer in [lo, hi], roughly uniform in log scale."""
    if lo >= hi:
        return lo
    import math
    a = math.log(lo + 1)
    b = math.log(hi + 1)
    v = int(math.exp(rng.uniform(a, b))) - 1
    return max(lo, min(hi, v))
