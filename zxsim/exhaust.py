"""Exhaustive 8-bit sweeps: every entry of the flag/result lookup tables is exercised by executing the
instruction that reads it (property C05: "The 8-bit flag lookup tables are correct for every one of their
entries"; also used by C06 to compare the Python and C engines entry by entry).

A template names an instruction and an iteration space; the space is cut into chunks so that the harness can
spread it over workers.  Spaces:
  alu-r   ADD/ADC/SUB/SBC/AND/XOR/OR/CP A,B       A x B x carry            (8 ops x 131072)
  alu-n   the same with an immediate operand         A x n x carry, A in a chunk of 16 values
  alu-a   the same with A as the operand (separate ADC_A_A/SBC_A_A tables)   A x F
  incdec  INC B / DEC B                              B x F(carry/other bits)
  cb      every CB opcode on register B              opcode x B x carry
  acc     RLCA RRCA RLA RRA DAA CPL SCF CCF NEG      A x F (all 256 flag bytes for DAA)
  rld     RLD / RRD                                  A x (HL)
"""
from . import lockstep
from .refz80 import F, T

TEMPLATES = []
for op in range(8):
    for chunk in range(16):
        TEMPLATES.append(('alu-r', op, chunk))
for op in range(8):
    for chunk in range(16):
        TEMPLATES.append(('alu-n', op, chunk))
TEMPLATES += [('incdec', 0, 0), ('incdec', 1, 0)]
for op in range(8):
    TEMPLATES.append(('alu-a', op, 0))
for chunk in range(32):
    TEMPLATES.append(('cb', 0, chunk))
for i in range(9):
    TEMPLATES.append(('acc', i, 0))
for op in range(2):
    for chunk in range(8):
        TEMPLATES.append(('rld', op, chunk))

ACC = ([0x07], [0x0F], [0x17], [0x1F], [0x27], [0x2F], [0x37], [0x3F], [0xED, 0x44])
PCX = 0x8000
CHECKED = (0, 1, 2, 3, 4, 5, 6, 7, 15, 24)
DATA = 0x9000

def cases(tpl):
    """-> (code bytes, iterator of (A, F, B, operand_byte_or_None, mem_byte_or_None))"""
    kind, op, chunk = tpl
    if kind == 'alu-r':
        code = [0x80 + op * 8]
        def it():
            for a in range(chunk * 16, chunk * 16 + 16):
                for b in range(256):
                    for f in (0x00, 0x01, 0xFE, 0xFF):
                        yield a, f, b, None, None
        return code, it()
    if kind == 'alu-n':
        code = [0xC6 + op * 8, 0]
        def it():
            for a in range(chunk * 16, chunk * 16 + 16):
                for n in range(256):
                    for f in (0x00, 0x01):
                        yield a, f, 0, n, None
        return code, it()
    if kind == 'alu-a':
        code = [0x87 + op * 8]
        def it():
            for a in range(256):
                for f in range(256):
                    yield a, f, 0, None, None
        return code, it()
    if kind == 'incdec':
        code = [0x04 + op]
        def it():
            for b in range(256):
                for f in (0x00, 0x01, 0xFE, 0xFF, 0x42, 0x10):
                    yield 0x5A, f, b, None, None
        return code, it()
    if kind == 'cb':
        def it():
            for opc in range(chunk * 8, chunk * 8 + 8):
                r = opc & 7
                for b in range(256):
                    for f in (0x00, 0x01, 0xFF):
                        if r == 6:
                            yield 0x5A, f, 0, opc, b
                        elif r == 7:
                            yield b, f, 0, opc, None
                        else:
                            yield 0x5A, f, (r, b), opc, None
        return [0xCB, 0], it()
    if kind == 'acc':
        code = list(ACC[op])
        def it():
            for a in range(256):
                for f in range(256):
                    yield a, f, 0, None, None
        return code, it()
    if kind == 'rld':
        code = [0xED, 0x6F if op == 0 else 0x67]
        def it():
            for a in range(chunk * 32, chunk * 32 + 32):
                for m in range(256):
                    for f in (0x00, 0x01, 0xFF):
                        yield a, f, 0, None, m
        return code, it()
    raise ValueError(tpl)

def run(tpl, kinds, use_ref, fail):
    """Execute the whole chunk on the replicas `kinds` (+ RefZ80 if use_ref).  fail(vclass, detail) reports."""
    code, it = cases(tpl)
    mem = {'machine': '48K', 'ram': {'fill': 0}, 'patches': [[PCX, bytes(code).hex()]]}
    base = {'kind': 'wstep', 'machine': '48K', 'mem': mem, 'regs': [0] * 30, 'tracer': {'present': True, 'in_r_c': True, 'ini': True}, 'reads': [0xFF], 'steps': 1, 'ints': [], 'replicas': list(kinds)}
    st = lockstep.materialise_state(base)
    reps = [lockstep.get_replica(k, '48K') for k in kinds]
    for r in reps:
        r.reset(st)
    ref = None
    if use_ref:
        ref = lockstep.get_ref('48K')
        ref.reset(st)
    opnd_at = PCX + len(code) - 1
    n = 0
    for a, f, b, opnd, m in it:
        state = [0] * 30
        state[6], state[7] = DATA >> 8, DATA & 0xFF
        if isinstance(b, tuple):
            state[2 + b[0]] = b[1]
            b = b[1]
        else:
            state[2] = b
        state[0], state[1] = a, f
        state[12] = 0xA000
        state[24] = PCX
        state[25] = 1000
        for r in reps:
            regs = r.sim.registers
            for i in CHECKED + (12, 25, 29):
                regs[i] = state[i]
            if opnd is not None:
                r.sim.memory[opnd_at] = opnd
            if m is not None:
                r.sim.memory[DATA] = m
        if ref is not None:
            ref.cpu.reg[:] = state
            if opnd is not None:
                ref.ram[opnd_at - 0x4000] = opnd
            if m is not None:
                ref.ram[DATA - 0x4000] = m
            info = ref.cpu.step()
        for r in reps:
            r.step()
        n += 1
        got = [r.regs() for r in reps]
        if ref is not None:
            rr = ref.cpu.reg
            for r, g in zip(reps, got):
                for i in CHECKED:
                    x, y = g[i], rr[i]
                    if i == F:
                        x &= info.mask
                        y &= info.mask
                    if x != y:
                        return fail('C05/%s/table/%s' % (r.kind, lockstep.REGNAMES[i]), '%s: %s=%d, reference %d after %s%02X %s with A=%d F=%d B=%d operand=%s (HL)=%s' % (
                            r.kind, lockstep.REGNAMES[i], g[i], rr[i], info.slot[0], info.slot[1], info.name, a, f, b, opnd, m)), n
                if not r.cmio and g[T] - state[T] != info.t:
                    return fail('C05/%s/table/tstates' % r.kind, '%s: %d T-states, reference %d for %s%02X' % (r.kind, g[T] - state[T], info.t, info.slot[0], info.slot[1])), n
                if m is not None and r.sim.memory[DATA] != ref.ram[DATA - 0x4000]:
                    return fail('C05/%s/table/memory' % r.kind, '%s: (HL)=%d, reference %d after %s with A=%d (HL)=%d' % (r.kind, r.sim.memory[DATA], ref.ram[DATA - 0x4000], info.name, a, m)), n
        else:
            for (ra, ga), (rb, gb) in zip(zip(reps, got), list(zip(reps, got))[1:]):
                if ra.cmio != rb.cmio:
                    continue
                for i in CHECKED + (25,):
                    if ga[i] != gb[i]:
                        return fail('C06/%s-vs-%s/table/%s' % (ra.kind, rb.kind, lockstep.REGNAMES[i]), '%s vs %s: %s=%d vs %d after template %s with A=%d F=%d B=%d operand=%s (HL)=%s' % (
                            ra.kind, rb.kind, lockstep.REGNAMES[i], ga[i], gb[i], tpl, a, f, b, opnd, m)), n
                if m is not None and ra.sim.memory[DATA] != rb.sim.memory[DATA]:
                    return fail('C06/%s-vs-%s/table/memory' % (ra.kind, rb.kind), '(HL) differs after template %s with A=%d (HL)=%d' % (tpl, a, m)), n
    return None, n


# ---------------------------------------------------------------------------------------------------------
# Clock sweep: the instructions whose result depends on the position of the clock inside the frame (HALT leaves
# the halted state only inside the interrupt window; LD A,I / LD A,R read P/V as 0 when an interrupt follows
# at once) executed at every T-state around a frame boundary, in frames 0, 1, around 2^24, 2^31, 2^32, 2^33
# and 2^40 T-states (a 20-minute emulated run passes 2^32).

CLOCK_TEMPLATES = [('clock', m, k) for m in (0, 1) for k in range(10)]

def clock_frames(frame):
    return (0, 1, (1 << 24) // frame, (1 << 24) // frame + 1, (1 << 31) // frame + 1, (1 << 32) // frame, (1 << 32) // frame + 1,
            (1 << 33) // frame + 3, (1 << 36) // frame, (1 << 40) // frame)

def run_clock(tpl, kinds, use_ref, fail):
    _, m, k = tpl
    machine = ('48K', '128K')[m]
    frame = (69888, 70908)[m]
    code = {0x8000: [0x76], 0x8010: [0xED, 0x57], 0x8020: [0xED, 0x5F], 0x8030: [0xFB], 0x8040: [0xDD, 0x76]}
    mem = {'machine': machine, 'patches': [[a, bytes(c).hex()] for a, c in code.items()]}
    if m:
        mem['banks'] = [{'fill': 0}] * 8
        mem['o7ffd'] = 0
    else:
        mem['ram'] = {'fill': 0}
    base = {'kind': 'wstep', 'machine': machine, 'mem': mem, 'regs': [0] * 30, 'tracer': {'present': True, 'in_r_c': True, 'ini': True}, 'reads': [0xFF], 'steps': 1, 'ints': [], 'replicas': list(kinds)}
    st = lockstep.materialise_state(base)
    reps = [lockstep.get_replica(kd, machine) for kd in kinds]
    for r in reps:
        r.reset(st)
    ref = None
    if use_ref:
        ref = lockstep.get_ref(machine)
        ref.reset(st)
    fr = clock_frames(frame)[k]
    n = 0
    for d in range(-44, 60):
        t0 = fr * frame + d
        if t0 < 0:
            continue
        for pc in sorted(code):
            for iff in (0, 1):
                for halted in ((0, 1) if pc in (0x8000, 0x8040) else (0,)):
                    state = [0] * 30
                    state[0], state[1] = 0x5A, 0xFF
                    state[12] = 0xA000
                    state[14], state[15] = 0x3C, 0x7E
                    state[24], state[25], state[26], state[27], state[28] = pc, t0, iff, 1, halted
                    if pc == 0x8040 and halted:
                        state[24] = 0x8041
                    for r in reps:
                        regs = r.sim.registers
                        for i in range(30):
                            regs[i] = state[i]
                    if ref is not None:
                        ref.cpu.reg[:] = state
                        info = ref.cpu.step()
                    for r in reps:
                        r.step()
                    n += 1
                    got = [r.regs() for r in reps]
                    what = 'opcode at %d executed at T=%d (frame %d %+d) IFF=%d halted=%d on %s' % (pc, t0, fr, d, iff, halted, machine)
                    if ref is not None:
                        rr = ref.cpu.reg
                        for r, g in zip(reps, got):
                            for i in (0, 1, 15, 24, 26, 28):
                                x, y = g[i], rr[i]
                                if i == F:
                                    x &= info.mask
                                    y &= info.mask
                                if x != y:
                                    return fail('C05/%s/clock/%s' % (r.kind, lockstep.REGNAMES[i]), '%s: %s=%d, reference %d: %s' % (r.kind, lockstep.REGNAMES[i], g[i], rr[i], what)), n
                            if not r.cmio and g[T] - t0 != info.t:
                                return fail('C05/%s/clock/tstates' % r.kind, '%s: %d T-states, reference %d: %s' % (r.kind, g[T] - t0, info.t, what)), n
                    else:
                        pairs = list(zip(reps, got))
                        for (ra, ga), (rb, gb) in zip(pairs, pairs[1:]):
                            if ra.cmio != rb.cmio:
                                continue
                            for i in (0, 1, 15, 24, 25, 26, 28):
                                if ga[i] != gb[i]:
                                    return fail('C06/%s-vs-%s/clock/%s' % (ra.kind, rb.kind, lockstep.REGNAMES[i]), '%s vs %s: %s=%d vs %d: %s' % (
                                        ra.kind, rb.kind, lockstep.REGNAMES[i], ga[i], gb[i], what)), n
    return None, n
