"""Scenario generators for the lock-step runner: W-step (one instruction from a generated state,
stratified over the 1792 dispatch slots) and W-prog (multi-event machine runs with
scheduler-chosen interrupt offers)."""
from . import gen_prog, prng

GROUPS = ('', 'CB', 'ED', 'DD', 'FD', 'DDCB', 'FDCB')
N_SLOTS = 1792
ALL5 = ['py', 'pyfast', 'c', 'pycmio', 'ccmio']

TARGETS = gen_prog.BOUNDARY_ADDRS
B16 = (0x0000, 0x0001, 0x7FFF, 0x8000, 0xFFFF, 0xFFFE, 0x8001, 0x7FFE, 0x0FFF, 0x1000, 0xF000, 0x00FF, 0x0100, 0x7F00, 0x80FF, 0x0800, 0xF7FF, 0xFF00, 0xEFFF)
BF = (0x00, 0x01, 0xFF, 0x10, 0x11, 0x02, 0x03, 0x12, 0x13, 0x40, 0x80, 0x04, 0xD7, 0xD6)

def pick_ptr(rng):
    r = rng.random()
    if r < 0.35:
        return rng.choice(TARGETS)
    if r < 0.5:
        return rng.randrange(0x4000)            # ROM
    if r < 0.7:
        return rng.randrange(0x4000, 0x8000)    # contended
    if r < 0.85:
        return rng.randrange(0x8000, 0xC000)
    return rng.randrange(0xC000, 0x10000)

def gen_phase(rng, machine):
    """Frame position: every phase of the wait pattern on first/middle/last display line, window edges,
    line ends, frame wrap, interrupt window; at least a third uniform (mostly outside the display area)."""
    if machine == '48K':
        frame, first, line, ia = 69888, 14335, 224, 32
    else:
        frame, first, line, ia = 70908, 14361, 228, 36
    last = first + 192 * line
    r = rng.random()
    if r < 0.22:
        ln = rng.choice((0, 0, 1, 95, 96, 190, 191, 191, rng.randrange(192)))
        return first + ln * line + rng.randrange(0, 136)
    if r < 0.34:
        return first + rng.randrange(-30, 4)
    if r < 0.44:
        return last - line + 128 + rng.randrange(-30, 30)
    if r < 0.52:
        ln = rng.randrange(192)
        return first + ln * line + rng.choice((120, 124, 126, 127, 128, 129, line - 8, line - 4, line - 1))
    if r < 0.64:
        return rng.choice((0, 1, 2, 3, ia - 5, ia - 4, ia - 1, ia, ia + 1, frame - 1, frame - 2, frame - 4, frame - 8, frame - 12, frame - 23))
    if r < 0.72:
        return rng.randrange(first, last)
    return rng.randrange(frame)

def gen_regs30(rng, machine, pc):
    regs = [0] * 30
    for i in list(range(0, 12)) + list(range(16, 24)):
        regs[i] = rng.choice((0, 0xFF, 0x80, 0x7F, 0x0F, 0x10, rng.randrange(256), rng.randrange(256), rng.randrange(256)))
    if rng.random() < 0.5:
        regs[1] = rng.choice(BF)
    for hi in (2, 4, 6, 8, 10):
        r = rng.random()
        if r < 0.25:
            v = rng.choice(B16)          # 16-bit arithmetic boundaries
            regs[hi], regs[hi + 1] = v >> 8, v & 0xFF
        elif r < 0.7:
            v = pick_ptr(rng)
            if hi >= 8 and rng.random() < 0.7:
                v = (v - rng.choice((0, 1, -1, 127, -128, rng.randrange(-128, 128)))) & 0xFFFF
            regs[hi], regs[hi + 1] = v >> 8, v & 0xFF
    regs[12] = rng.choice((pick_ptr(rng), pick_ptr(rng), 0x4000, 0x4001, 0x4002, 0x0000, 0x0001, 0x0002, 0xFFFF, rng.randrange(0x10000)))
    regs[14] = rng.choice((0x3F, 0x00, rng.randrange(0x40, 0x80), rng.randrange(0x40, 0x80), rng.randrange(0x80, 0xC0), rng.randrange(0xC0, 0x100), rng.randrange(256)))
    regs[15] = rng.choice((0, 0x7F, 0x7E, 0x80, 0xFF, 0xFE, rng.randrange(256)))
    regs[24] = pc
    regs[26] = rng.choice((0, 1, 1))
    regs[27] = rng.choice((0, 1, 1, 2, 2))
    regs[28] = 0
    regs[29] = rng.randrange(0x10000)
    return regs

def gen_tracer(rng):
    present = rng.random() < 0.88
    return {'present': present, 'in_r_c': rng.random() < 0.9, 'ini': rng.random() < 0.9}

def gen_reads(rng):
    return [rng.choice((0xFF, 0xBF, 0x00, 0x1F, rng.randrange(256), rng.randrange(256))) for _ in range(rng.choice((1, 4, 8, 16)))]

def gen_pc(rng):
    r = rng.random()
    if r < 0.08:
        return rng.choice((0xFFFD, 0xFFFE, 0xFFFF, 0xFFFC))
    if r < 0.22:
        return rng.choice((0x4000, 0x7FFC, 0x7FFD, 0x7FFE, 0x7FFF, 0x8000, 0xBFFD, 0xBFFE, 0xBFFF, 0xC000))
    if r < 0.25:
        return rng.randrange(0x4000)
    if r < 0.5:
        return rng.randrange(0x4000, 0x7FF0)
    if r < 0.75:
        return rng.randrange(0x8000, 0xBFF0)
    return rng.randrange(0xC000, 0xFFF0)

def slot_bytes(rng, slot):
    g, op = GROUPS[slot // 256], slot % 256
    if rng.random() < 0.5:
        a = pick_ptr(rng)
        o1, o2 = a & 0xFF, a >> 8
    else:
        o1, o2 = rng.randrange(256), rng.randrange(256)
    d = rng.choice((0, 1, 0x7F, 0x80, 0xFF, rng.randrange(256), rng.randrange(256)))
    if g == '':
        return [op, o1, o2, rng.randrange(256)]
    if g == 'CB':
        return [0xCB, op, rng.randrange(256)]
    if g == 'ED':
        return [0xED, op, o1, o2, rng.randrange(256)]
    if g in ('DD', 'FD'):
        pfx = 0xDD if g == 'DD' else 0xFD
        if op == 0xCB:
            return [pfx, 0xCB, d, rng.randrange(256)]
        return [pfx, op, d if rng.random() < 0.5 else o1, o2, rng.randrange(256)]
    pfx = 0xDD if g == 'DDCB' else 0xFD
    return [pfx, 0xCB, d, op]

ALIGN_TARGETS = (0x3FFE, 0x3FFF, 0x4000, 0x4001, 0xFFFF, 0xFFFE, 0x0000, 0x0001, 0x7FFF, 0xBFFF, 0xC000)

def gen_wstep(rng, tier, index, replicas=None, machines=('48K', '48K', '128K', '128K', '+2'), align=False):
    slot = index % N_SLOTS
    machine = rng.choice(machines)
    frame = 69888 if machine == '48K' else 70908
    mem = gen_prog.gen_mem(rng, machine, equal_banks=rng.random() < 0.1)
    pc = gen_pc(rng)
    code = slot_bytes(rng, slot)
    g, op = GROUPS[slot // 256], slot % 256
    target = None
    if align:
        # every pointer the instruction could use is aimed at one boundary address: (nn), BC, DE, HL, IX+d, IY+d and SP
        target = rng.choice(ALIGN_TARGETS)
        lo, hi = target & 0xFF, target >> 8
        if g == '':
            code[1:3] = [lo, hi]
        elif g == 'ED':
            code[2:4] = [lo, hi]
        elif g in ('DD', 'FD') and code[1] != 0xCB:
            code[2:4] = [lo, hi]
        while pc <= target < pc + 6 or pc <= ((target + 1) & 0xFFFF) < pc + 6:
            pc = gen_pc(rng)
    mem['patches'].append([pc, bytes(code).hex()])
    regs = gen_regs30(rng, machine, pc)
    if target is not None:
        d = code[2] if g in ('DD', 'FD', 'DDCB', 'FDCB') else 0
        d = d - 256 if d > 127 else d
        for hi_ in (2, 4, 6):
            regs[hi_], regs[hi_ + 1] = target >> 8, target & 0xFF
        ix = (target - d) & 0xFFFF
        regs[8], regs[9], regs[10], regs[11] = ix >> 8, ix & 0xFF, ix >> 8, ix & 0xFF
        regs[12] = (target + rng.choice((0, 1, 2, 2))) & 0xFFFF
    steps = 1
    if g == 'ED' and 0xB0 <= op <= 0xBB and op & 7 < 4:
        steps = rng.choice((1, 2, 3, 4))
        if rng.random() < 0.6:
            regs[2], regs[3] = rng.choice(((0, 1), (0, 2), (0, 3), (1, 0), (1, 1), (2, 0), (0, 0)))
    elif g == '' and op == 0x10:
        steps = rng.choice((1, 2, 3))
        if rng.random() < 0.3:
            mem['patches'].append([(pc + 1) & 0xFFFF, 'fe'])
    elif g in ('DD', 'FD') or (g == '' and op in (0xDD, 0xFD, 0xFB)):
        steps = rng.choice((1, 2, 2, 3))
    if g == '' and op == 0x76 and rng.random() < 0.4 and 0x4000 <= pc:
        # halted state: only meaningful when the byte at PC really is the HALT opcode (PC in RAM, so the patch lands)
        regs[28] = 1
        steps = rng.choice((1, 2, 3))
    phase = gen_phase(rng, machine)
    mag = rng.random()
    if mag < 0.7:
        frames = 0
    elif mag < 0.9:
        frames = rng.randrange(1, 300)
    elif mag < 0.96:
        frames = rng.randrange(300, (1 << 27) // frame)
    else:
        # long-running clocks: around and beyond 2^31, 2^32, 2^33 and 2^40 T-states (a 20-minute emulated run passes 2^32)
        frames = rng.choice(((1 << 31) // frame, (1 << 32) // frame, (1 << 32) // frame + 1, (1 << 33) // frame + rng.randrange(0, 50),
                             (1 << 40) // frame, rng.randrange((1 << 32) // frame, (1 << 36) // frame)))
    regs[25] = frames * frame + phase
    ints = []
    if rng.random() < 0.35:
        ints = [rng.randrange(steps)]
        regs[26] = 1
    # I/O instructions: bias port (BC or A:n) towards the decoded ports
    if rng.random() < 0.5:
        port = rng.choice(gen_prog.PORTS + (0x40FE, 0x7FFE, 0x40FF, 0xC0FE, 0xC0FF, 0x80FF))
        regs[2], regs[3] = port >> 8, port & 0xFF
        if g == 'ED' and op in (0xA3, 0xAB, 0xB3, 0xBB):
            # OUTI/OUTD/OTIR/OTDR put (B-1):C on the bus: aim the port that is really written, which makes B the
            # value one above it (0x80 for 0x7FFD, 0x00 for 0xFFxx)
            regs[2] = ((port >> 8) + 1) & 0xFF
    return {'kind': 'wstep', 'slot': slot, 'machine': machine, 'mem': mem, 'regs': regs, 'tracer': gen_tracer(rng),
            'reads': gen_reads(rng), 'steps': steps, 'ints': ints, 'replicas': list(replicas or ALL5)}

def gen_wprog(rng, tier, index, replicas=None, max_steps=256):
    machine = rng.choice(('48K', '48K', '128K', '128K', '+2'))
    frame = 69888 if machine == '48K' else 70908
    prog = gen_prog.gen_program(rng, machine)
    regs = [0] * 30
    from .refz80 import A
    names = {'A': 0, 'F': 1, 'B': 2, 'C': 3, 'D': 4, 'E': 5, 'H': 6, 'L': 7, 'IXh': 8, 'IXl': 9, 'IYh': 10, 'IYl': 11,
             'SP': 12, 'I': 14, 'R': 15, '^A': 16, '^F': 17, '^B': 18, '^C': 19, '^D': 20, '^E': 21, '^H': 22, '^L': 23, 'PC': 24}
    for k, v in prog['regs'].items():
        regs[names[k]] = v
    regs[25] = gen_phase(rng, machine) if rng.random() < 0.5 else prog['state']['tstates']
    regs[26] = prog['state']['iff']
    regs[27] = prog['state']['im']
    regs[29] = rng.randrange(0x10000)
    steps = prng.log_uniform(rng, 1, max_steps)
    nint = rng.choice((0, 1, 1, 2, 3, 5))
    ints = sorted(set(rng.randrange(steps) for _ in range(nint)))
    return {'kind': 'wprog', 'style': prog['style'], 'machine': machine, 'mem': prog['mem'], 'regs': regs, 'tracer': gen_tracer(rng),
            'reads': gen_reads(rng), 'steps': steps, 'ints': ints, 'replicas': list(replicas or ALL5)}

def shrink_candidates(scn):
    import json
    def cp():
        return json.loads(json.dumps(scn))
    n = scn['steps']
    for m in (1, 2, n // 2, n - 1):
        if 0 < m < n:
            c = cp(); c['steps'] = m; c['ints'] = [i for i in c.get('ints', []) if i < m]; yield c
    for i in range(len(scn.get('ints', []))):
        c = cp(); del c['ints'][i]; yield c
    if len(scn['replicas']) > 2:
        for k in scn['replicas']:
            c = cp(); c['replicas'].remove(k); yield c
    if not scn['tracer']['present']:
        pass
    elif not (scn['tracer']['in_r_c'] and scn['tracer']['ini']):
        c = cp(); c['tracer']['in_r_c'] = c['tracer']['ini'] = True; yield c
    frame = 69888 if scn['machine'] == '48K' else 70908
    if scn['regs'][25] >= frame:
        c = cp(); c['regs'][25] %= frame; yield c
    for i in list(range(0, 12)) + list(range(16, 24)) + [29]:
        if scn['regs'][i]:
            c = cp(); c['regs'][i] = 0; yield c
