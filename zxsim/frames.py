"""C19 frame sweeps: one instruction template executed at every T-state of the frame (in chunks), on the plain
and the contended engine of each language, the extra delay compared with RefULA folded over RefZ80's bus
cycles.  Random W-step scenarios sample (instruction, frame position) pairs; the sweep closes the frame
dimension for the templates whose bus-cycle shapes differ (every distinct contention pattern kind)."""

CODE = 0x5000            # contended in 48K and 128K (bank 5)
BASE = {'A': 0x5A, 'F': 0, 'BC': 0x4002, 'DE': 0x5800, 'HL': 0x5900, 'IX': 0x5A00, 'IY': 0x5B00, 'SP': 0x5C00, 'I': 0x40, 'PC': CODE}

# (name, code bytes, register overrides)
TEMPLATES = [
    ('NOP', [0x00], {}),
    ('LD A,(HL)', [0x7E], {}),
    ('LD (HL),A', [0x77], {}),
    ('INC (HL)', [0x34], {}),
    ('PUSH BC', [0xC5], {}),
    ('POP BC', [0xC1], {}),
    ('ADD HL,BC', [0x09], {}),
    ('ADC HL,BC', [0xED, 0x4A], {}),
    ('INC HL', [0x23], {}),
    ('LD A,I', [0xED, 0x57], {}),
    ('LD SP,HL', [0xF9], {}),
    ('LD SP,IX', [0xDD, 0xF9], {}),
    ('IN A,(FE) A=40', [0xDB, 0xFE], {'A': 0x40}),
    ('IN A,(FF) A=40', [0xDB, 0xFF], {'A': 0x40}),
    ('IN A,(FE) A=80', [0xDB, 0xFE], {'A': 0x80}),
    ('IN A,(FF) A=80', [0xDB, 0xFF], {'A': 0x80}),
    ('OUT (FE),A A=40', [0xD3, 0xFE], {'A': 0x40}),
    ('OUT (C),A BC=40FE', [0xED, 0x79], {'BC': 0x40FE}),
    ('OUT (C),A BC=40FF', [0xED, 0x79], {'BC': 0x40FF}),
    ('OUT (C),A BC=80FE', [0xED, 0x79], {'BC': 0x80FE}),
    ('OUT (C),A BC=80FF', [0xED, 0x79], {'BC': 0x80FF}),
    ('IN B,(C) BC=7FFE', [0xED, 0x40], {'BC': 0x7FFE}),
    ('LDI', [0xED, 0xA0], {}),
    ('LDIR repeat', [0xED, 0xB0], {'BC': 2}),
    ('LDDR repeat', [0xED, 0xB8], {'BC': 2}),
    ('CPIR repeat', [0xED, 0xB1], {'BC': 2}),
    ('CPI', [0xED, 0xA1], {}),
    ('INI BC=40FE', [0xED, 0xA2], {'BC': 0x40FE}),
    ('INIR repeat BC=41FF', [0xED, 0xB2], {'BC': 0x41FF}),
    ('OUTI BC=41FE', [0xED, 0xA3], {'BC': 0x41FE}),
    ('OTIR repeat BC=42FE', [0xED, 0xB3], {'BC': 0x42FE}),
    ('OTDR repeat BC=82FF', [0xED, 0xBB], {'BC': 0x82FF}),
    ('INC (IX+1)', [0xDD, 0x34, 0x01], {}),
    ('LD (IX+1),n', [0xDD, 0x36, 0x01, 0x77], {}),
    ('LD A,(IY-1)', [0xFD, 0x7E, 0xFF], {}),
    ('ADD A,(IX+127)', [0xDD, 0x86, 0x7F], {}),
    ('BIT 0,(IY+1)', [0xFD, 0xCB, 0x01, 0x46], {}),
    ('RLC (IX+1)', [0xDD, 0xCB, 0x01, 0x06], {}),
    ('SET 1,(HL)', [0xCB, 0xCE], {}),
    ('BIT 7,(HL)', [0xCB, 0x7E], {}),
    ('EX (SP),HL', [0xE3], {}),
    ('EX (SP),IX', [0xDD, 0xE3], {}),
    ('RLD', [0xED, 0x6F], {}),
    ('JR', [0x18, 0x02], {}),
    ('JR NZ not taken', [0x20, 0x02], {'F': 0x40}),
    ('DJNZ taken', [0x10, 0x02], {'BC': 0x0202}),
    ('DJNZ not taken', [0x10, 0x02], {'BC': 0x0102}),
    ('CALL nn', [0xCD, 0x00, 0x51], {}),
    ('CALL Z not taken', [0xCC, 0x00, 0x51], {}),
    ('RET', [0xC9], {}),
    ('RET NZ taken', [0xC0], {}),
    ('RET Z not taken', [0xC8], {}),
    ('RETN', [0xED, 0x45], {}),
    ('RST 8', [0xCF], {}),
    ('JP nn', [0xC3, 0x00, 0x51], {}),
    ('JP (HL)', [0xE9], {}),
    ('LD (nn),HL', [0x22, 0x00, 0x58], {}),
    ('LD HL,(nn)', [0x2A, 0x00, 0x58], {}),
    ('LD (nn),BC', [0xED, 0x43, 0x00, 0x58], {}),
    ('LD A,(nn)', [0x3A, 0x00, 0x58], {}),
    ('LD (nn),A unc', [0x32, 0x00, 0x90], {}),
    ('LD (BC),A', [0x02], {}),
    ('LD BC,nn', [0x01, 0x34, 0x12], {}),
    ('LD (HL),n', [0x36, 0x99], {}),
    ('HALT', [0x76], {}),
    ('NEG', [0xED, 0x44], {}),
    ('LD IX,nn', [0xDD, 0x21, 0x00, 0x5A], {}),
    ('ADD IX,BC', [0xDD, 0x09], {}),
    ('DD NOP-prefix', [0xDD, 0x00], {}),
    ('ADD HL,BC I=80', [0x09], {'I': 0x80}),
    ('LD A,(HL) data unc', [0x7E], {'HL': 0x9000}),
    ('PUSH BC stack unc', [0xC5], {'SP': 0x9000}),
    ('LD A,(HL) code unc', [0x7E], {'PC': 0x8000}),
    ('ADD HL,BC code unc I=40', [0x09], {'PC': 0x8000}),
    ('LDIR repeat code unc', [0xED, 0xB0], {'BC': 2, 'PC': 0x8000}),
    ('LD A,(HL) data C000', [0x7E], {'HL': 0xC100}),
    ('PUSH BC stack C000', [0xC5], {'SP': 0xC200}),
    ('ADD HL,BC I=C0', [0x09], {'I': 0xC0}),
    ('LD A,(HL) code C000', [0x7E], {'PC': 0xC000, 'HL': 0xC100}),
    ('IN A,(FE) A=C0', [0xDB, 0xFE], {'A': 0xC0}),
    ('OUT (C),A BC=C0FF', [0xED, 0x79], {'BC': 0xC0FF}),
    ('OUT (C),A BC=C0FD', [0xED, 0x79], {'BC': 0xC0FD}),
    ('LD A,(HL) HL=3FFF', [0x7E], {'HL': 0x3FFF}),
    ('LD HL,(nn) 7FFF', [0x2A, 0xFF, 0x7F], {}),
    ('PUSH BC SP=8001', [0xC5], {'SP': 0x8001}),
    ('LD (nn),HL FFFF', [0x22, 0xFF, 0xFF], {}),
]

# halted CPU: the re-fetch goes to PC+1
TEMPLATES += [
    ('HALT (halted)', [0x76], {'HALTED': 1}),
    ('HALT (halted) code unc', [0x76], {'HALTED': 1, 'PC': 0x8000}),
]
for _b in (0x7FFF, 0xBFFF, 0xFFFF):
    TEMPLATES += [('HALT PC=%04X' % _b, [0x76], {'PC': _b}), ('HALT (halted) PC=%04X' % _b, [0x76], {'PC': _b, 'HALTED': 1}),
                  ('HALT (halted) PC=%04X' % (_b - 1), [0x76], {'PC': _b - 1, 'HALTED': 1})]

# straddles: 16-bit data/stack accesses and multi-byte instructions lying across every 16K boundary
for _b in (0x3FFF, 0x7FFF, 0xBFFF, 0xFFFF):
    _n = '%04X' % _b
    TEMPLATES += [
        ('PUSH BC SP=%04X' % ((_b + 2) & 0xFFFF), [0xC5], {'SP': (_b + 2) & 0xFFFF}),
        ('POP BC SP=' + _n, [0xC1], {'SP': _b}),
        ('EX (SP),HL SP=' + _n, [0xE3], {'SP': _b}),
        ('EX (SP),IX SP=' + _n, [0xDD, 0xE3], {'SP': _b}),
        ('EX (SP),IY SP=' + _n, [0xFD, 0xE3], {'SP': _b}),
        ('CALL nn SP=%04X' % ((_b + 2) & 0xFFFF), [0xCD, 0x00, 0x51], {'SP': (_b + 2) & 0xFFFF}),
        ('RET SP=' + _n, [0xC9], {'SP': _b}),
        ('RETI SP=' + _n, [0xED, 0x4D], {'SP': _b}),
        ('RST 16 SP=%04X' % ((_b + 2) & 0xFFFF), [0xD7], {'SP': (_b + 2) & 0xFFFF}),
        ('PUSH IX SP=%04X' % ((_b + 2) & 0xFFFF), [0xDD, 0xE5], {'SP': (_b + 2) & 0xFFFF}),
        ('POP IY SP=' + _n, [0xFD, 0xE1], {'SP': _b}),
        ('LD (nn),HL nn=' + _n, [0x22, _b & 0xFF, _b >> 8], {}),
        ('LD HL,(nn) nn=' + _n, [0x2A, _b & 0xFF, _b >> 8], {}),
        ('LD (nn),DE nn=' + _n, [0xED, 0x53, _b & 0xFF, _b >> 8], {}),
        ('LD SP,(nn) nn=' + _n, [0xED, 0x7B, _b & 0xFF, _b >> 8], {}),
        ('LD IX,(nn) nn=' + _n, [0xDD, 0x2A, _b & 0xFF, _b >> 8], {}),
        ('LD (nn),IY nn=' + _n, [0xFD, 0x22, _b & 0xFF, _b >> 8], {}),
        ('LDIR repeat HL=' + _n, [0xED, 0xB0], {'BC': 2, 'HL': _b, 'DE': 0x9000}),
        ('LDIR repeat DE=' + _n, [0xED, 0xB0], {'BC': 2, 'DE': _b, 'HL': 0x9000}),
        ('LDDR repeat DE=%04X' % ((_b + 1) & 0xFFFF), [0xED, 0xB8], {'BC': 2, 'DE': (_b + 1) & 0xFFFF, 'HL': 0x9000}),
        ('INC (IX+1) IX=%04X' % ((_b - 1) & 0xFFFF), [0xDD, 0x34, 0x01], {'IX': (_b - 1) & 0xFFFF}),
        ('INC (IX+1) IX=' + _n, [0xDD, 0x34, 0x01], {'IX': _b}),
        ('LD BC,nn PC=' + _n, [0x01, 0x34, 0x12], {'PC': _b}),
        ('LD BC,nn PC=%04X' % ((_b - 1) & 0xFFFF), [0x01, 0x34, 0x12], {'PC': (_b - 1) & 0xFFFF}),
        ('LD (IX+1),n PC=%04X' % ((_b - 2) & 0xFFFF), [0xDD, 0x36, 0x01, 0x77], {'PC': (_b - 2) & 0xFFFF}),
        ('RLC (IX+1) PC=%04X' % ((_b - 1) & 0xFFFF), [0xDD, 0xCB, 0x01, 0x06], {'PC': (_b - 1) & 0xFFFF}),
        ('CALL nn PC=%04X' % ((_b - 1) & 0xFFFF), [0xCD, 0x00, 0x51], {'PC': (_b - 1) & 0xFFFF}),
        ('JR PC=' + _n, [0x18, 0x02], {'PC': _b}),
        ('DJNZ taken PC=' + _n, [0x10, 0x02], {'PC': _b, 'BC': 0x0202}),
        ('LDIR repeat PC=' + _n, [0xED, 0xB0], {'BC': 2, 'PC': _b}),
        ('NEG PC=' + _n, [0xED, 0x44], {'PC': _b}),
        ('IN A,(FE) PC=' + _n, [0xDB, 0xFE], {'PC': _b, 'A': 0x40}),
    ]

CHUNKS = 32

def variants():
    """(machine, o7ffd) variants: 48K; 128K with an uncontended and with a contended bank at 0xC000, ROM 0 and ROM 1."""
    return [('48K', 0), ('128K', 0), ('128K', 1), ('128K', 0x17), ('128K', 4), ('128K', 3)]

def total(tier):
    return len(TEMPLATES) * len(variants()) * CHUNKS

def n_edge():
    return len(TEMPLATES) * len(variants())

FRAME_NOS = lambda frame: (1, 1, 1, (1 << 32) // frame + 1, (1 << 33) // frame + 7, (1 << 40) // frame)

def edge_scenario(k):
    """The T-states at which contention begins and ends (frame start, the approach to and the whole of the first
    display line, the last display line and its aftermath, the frame end) for one template on one machine variant.
    Every quick run sweeps these for every template and variant."""
    nt = len(TEMPLATES)
    t = k % nt
    machine, o7 = variants()[(k // nt) % len(variants())]
    if machine == '48K':
        frame, first, line = 69888, 14335, 224
    else:
        frame, first, line = 70908, 14361, 228
    last = first + 192 * line
    ranges = [[0, 96], [first - 64, first + line + 32], [last - line - 32, last + 64], [frame - 96, frame]]
    return {'kind': 'frames', 'machine': machine, 'o7ffd': o7, 'template': t, 'name': TEMPLATES[t][0], 'ranges': ranges,
            't_lo': 0, 't_hi': 0, 'frame_no': FRAME_NOS(frame)[(k // 5) % 6]}

def ranges_of(scn):
    return scn.get('ranges') or [[scn['t_lo'], scn['t_hi']]]

def shrink(scn):
    rs = ranges_of(scn)
    if len(rs) > 1:
        for r in rs:
            yield dict(scn, ranges=[r])
        return
    lo, hi = rs[0]
    if hi - lo > 1:
        mid = (lo + hi) // 2
        yield dict(scn, ranges=[[lo, mid]])
        yield dict(scn, ranges=[[mid, hi]])

def scenario(k):
    nt, nv = len(TEMPLATES), len(variants())
    t = k % nt
    v = (k // nt) % nv
    c = (k // (nt * nv)) % CHUNKS
    machine, o7 = variants()[v]
    frame = 69888 if machine == '48K' else 70908
    size = (frame + CHUNKS - 1) // CHUNKS
    lo = c * size
    # frame number of the sweep: the second frame, or one beyond 2^32 / 2^33 / 2^40 T-states (long-running clock)
    fk = (1, 1, 1, (1 << 32) // frame + 1, (1 << 33) // frame + 7, (1 << 40) // frame)[(k // 7) % 6]
    return {'kind': 'frames', 'machine': machine, 'o7ffd': o7, 'template': t, 'name': TEMPLATES[t][0], 't_lo': lo, 't_hi': min(frame, lo + size), 'frame_no': fk}

def state_regs(tpl):
    r = dict(BASE)
    r.update(tpl[2])
    regs = [0] * 30
    regs[0], regs[1] = r['A'], r['F']
    regs[2], regs[3] = r['BC'] >> 8, r['BC'] & 0xFF
    regs[4], regs[5] = r['DE'] >> 8, r['DE'] & 0xFF
    regs[6], regs[7] = r['HL'] >> 8, r['HL'] & 0xFF
    regs[8], regs[9] = r['IX'] >> 8, r['IX'] & 0xFF
    regs[10], regs[11] = r['IY'] >> 8, r['IY'] & 0xFF
    regs[12] = r['SP']
    regs[14] = r['I']
    regs[24] = r['PC']
    regs[27] = 1
    regs[28] = r.get('HALTED', 0)
    return regs
