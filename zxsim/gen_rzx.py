"""RZX recorder - a fake peer, not an oracle.

Drives a real simulator core frame by frame (int_active = 0, exactly as rzxplay configures its
simulator), feeding port reads from the scenario's pre-drawn list, and writes an RZX file with its
own encoder (RZX 0.12/0.13 layout).  Fetch counts are computed by decoding the opcode bytes
(1 M1 for an unprefixed opcode or a lone DD/FD prefix, 2 for CB/ED/indexed/DDCB forms), not by
rzxplay's R-parity trick.

Recording conventions (RZX practice, as documented by `rzxplay.py --flags help`):
  bit 0 (ldair): when the last instruction of a frame is LD A,I / LD A,R and an interrupt follows, P/V is reset
  bit 1 (ei)   : an EI that ends a frame followed by a short frame (<= 2 fetches) blocks the interrupt
  default      : an interrupt is accepted at every frame boundary where IFF = 1
"""
import zlib

from .refz80 import indexable

def m1_count(peek, pc):
    op = peek(pc)
    if op in (0xCB, 0xED):
        return 2
    if op in (0xDD, 0xFD):
        op2 = peek((pc + 1) & 0xFFFF)
        if op2 in (0xDD, 0xFD, 0xED) or not indexable(op2):
            return 1
        return 2
    return 1

def dword(n):
    return bytes((n & 0xFF, (n >> 8) & 0xFF, (n >> 16) & 0xFF, (n >> 24) & 0xFF))

def snapshot_block(data, ext, compress):
    body = zlib.compress(data, 6) if compress else bytes(data)
    flags = 2 if compress else 0
    blk = bytes((0x30,)) + dword(17 + len(body)) + dword(flags) + (ext.encode() + b'\0\0\0\0')[:4] + dword(len(data)) + body
    return blk

def input_block(frames, tstates, compress, use_repeat=True):
    """frames: list of (fetch_count, [port readings])."""
    raw = bytearray()
    prev = None
    first = True
    n_repeat = 0
    for fc, reads in frames:
        raw += bytes((fc & 0xFF, fc >> 8))
        if use_repeat and not first and prev is not None and list(reads) == prev and len(reads) > 0:
            raw += b'\xff\xff'
            n_repeat += 1
        else:
            raw += bytes((len(reads) & 0xFF, len(reads) >> 8))
            raw += bytes(reads)
            prev = list(reads)
        first = False
    body = zlib.compress(bytes(raw), 6) if compress else bytes(raw)
    flags = 2 if compress else 0
    blk = bytes((0x80,)) + dword(18 + len(body)) + dword(len(frames)) + b'\0' + dword(tstates) + dword(flags) + body
    return blk, n_repeat

def rzx_file(blocks, minor=13, creator=True):
    out = bytearray(b'RZX!' + bytes((0, minor)) + dword(0))
    if creator:
        out += bytes((0x10,)) + dword(29) + (b'zxsim' + b'\0' * 20)[:20] + bytes((1, 0, 0, 0))
    for b in blocks:
        out += b
    return bytes(out)
