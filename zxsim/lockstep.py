"""Lock-step runner: real simulator replicas + reference machine on one world.

Replica kinds:  py (Simulator), pyfast (Simulator with fast_djnz/fast_ldir), c (CSimulator),
pycmio (CMIOSimulator), ccmio (CCMIOSimulator).  Replicas are built once per process and
reset in place (closures and C buffers hold references to the memory/register objects).

The oracles are grouped by property; a driver enables the ones it decides:
  C05  every replica refines RefZ80 (registers, documented flags, writes, ports, T)
  C06  py == pyfast == c  and  pycmio == ccmio   (bit-identical; MEMPTR only within the cmio pair)
  C08  ROM never modified, register/cell ranges, T monotone, paging = last accepted 0x7FFD write,
       writes only into visible banks
  C19  contended twin == plain twin except T/MEMPTR(/bits 3,5 of F); extra delay == RefULA(RefZ80 cycles)
"""
import os

from . import gen_prog
from .refz80 import RefZ80, A, F, B, C, D, E, H, L, SP, I, R, PC, T, IFF, IM, HALT, MEMPTR, DOC
from .refula import RefULA

KINDS = ('py', 'pyfast', 'c', 'pycmio', 'ccmio')
REGNAMES = ['A', 'F', 'B', 'C', 'D', 'E', 'H', 'L', 'IXh', 'IXl', 'IYh', 'IYl', 'SP', 'SP2', 'I', 'R',
            "A'", "F'", "B'", "C'", "D'", "E'", "H'", "L'", 'PC', 'T', 'IFF', 'IM', 'HALT', 'MEMPTR']
MAX16 = (12, 24, 29)

_roms = {}
_replicas = {}
_classes = {}
_PagingTracer = None
_Memory = None
_simutils = None

def init():
    global _PagingTracer, _Memory, _simutils
    import skoolkit
    from skoolkit import simulator, cmiosimulator, pagingtracer, simutils
    _PagingTracer = pagingtracer.PagingTracer
    _Memory = pagingtracer.Memory
    _simutils = simutils
    _classes.update({'py': simulator.Simulator, 'pyfast': simulator.Simulator, 'c': skoolkit.CSimulator,
                     'pycmio': cmiosimulator.CMIOSimulator, 'ccmio': skoolkit.CCMIOSimulator})
    res = os.path.join(os.path.dirname(skoolkit.__file__), 'resources')
    def rd(n):
        with open(os.path.join(res, n), 'rb') as f:
            return f.read()
    _roms['48K'] = (rd('48.rom'),)
    _roms['128K'] = (rd('128-0.rom'), rd('128-1.rom'))
    _roms['+2'] = (rd('plus2-0.rom'), rd('plus2-1.rom'))
    # ROM files are read on every Memory() construction; serve them from memory (same bytes).
    orig = pagingtracer.read_bin_file
    cache = {}
    def cached(fname, size=None):
        if size is None:
            if fname not in cache:
                cache[fname] = orig(fname)
            return cache[fname]
        return orig(fname, size)
    pagingtracer.read_bin_file = cached

class World:
    """The I/O seam.  Subclass of the real PagingTracer is created lazily (needs skoolkit imported)."""
    pass

def _world_class():
    global World
    if getattr(World, '_ready', False):
        return World
    class W(_PagingTracer):
        _ready = True
        def __init__(self, sim, reads, o7ffd, is128):
            self.simulator = sim
            self.reads = reads
            self.n = 0
            self.log = []
            self.out7ffd = o7ffd
            self.outfffd = 0
            self.ay = [0] * 16
            self.border = 0
            self.outfe = 0
        def read_port(self, registers, port):
            v = self.reads[self.n % len(self.reads)]
            self.n += 1
            self.log.append((0, port, v))
            return v
        def write_port(self, registers, port, value, offset=0):
            self.log.append((1, port, value))
            _PagingTracer.write_port(self, registers, port, value, offset)
    World = W
    return W

class Replica:
    def __init__(self, kind, machine):
        self.kind = kind
        self.machine = machine
        self.is128 = machine != '48K'
        self.cmio = kind in ('pycmio', 'ccmio')
        self.isc = kind in ('c', 'ccmio')
        self.cls = _classes[kind]
        self.config = {'fast_djnz': kind == 'pyfast', 'fast_ldir': kind == 'pyfast'}
        self.sim = None
        self.world = None
        if not self.is128:
            self._build48()
        elif not self.isc:
            self._build128([bytes(0x4000)] * 8, 0)

    def _build48(self):
        mem = [0] * 65536
        mem[:0x4000] = _roms['48K'][0]
        self.sim = _simutils.from_memory(self.cls, mem, None, None, dict(self.config))

    def _build128(self, banks, o7ffd):
        m = _Memory([list(b) for b in banks], o7ffd, self.machine)
        self.sim = _simutils.from_memory(self.cls, m, None, None, dict(self.config))

    def reset(self, st):
        sim = self.sim
        if not self.is128:
            if self.isc:
                sim.memory[0x4000:] = st['ram']
                if bytes(sim.memory[:0x4000]) != _roms['48K'][0]:
                    sim.memory[:0x4000] = _roms['48K'][0]
            else:
                sim.memory[0x4000:] = list(st['ram'])
                if bytes(sim.memory[:0x4000]) != _roms['48K'][0]:
                    sim.memory[:0x4000] = list(_roms['48K'][0])
        elif self.isc:
            # C paging pointers can only be set at construction
            self._build128(st['banks'], st['o7ffd'])
            sim = self.sim
        else:
            m = sim.memory
            for i in range(8):
                m.banks[i][:] = list(st['banks'][i])
            for i in range(2):
                if bytes(m.roms[i]) != _roms[self.machine][i]:
                    m.roms[i][:] = list(_roms[self.machine][i])
            m.memory[1] = m.banks[5]
            m.memory[2] = m.banks[2]
            m.out7ffd(st['o7ffd'])
        regs = sim.registers
        for i, v in enumerate(st['regs']):
            regs[i] = v
        tr = st['tracer']
        if tr['present']:
            self.world = _world_class()(sim, st['reads'], st.get('o7ffd', 0), self.is128)
            sim.set_tracer(self.world, tr['in_r_c'], tr['ini'])
        else:
            self.world = None
            sim.set_tracer(None)

    def step(self):
        self.sim.run()

    def offer_int(self, prev_pc):
        return self.sim.accept_interrupt(self.sim.registers, self.sim.memory, prev_pc)

    def regs(self):
        return list(self.sim.registers)

    def peek(self, addr):
        return self.sim.memory[addr]

    def phys(self):
        """-> (roms, rams) as lists of bytes; raises ValueError if a cell is outside 0..255."""
        m = self.sim.memory
        if not self.is128:
            b = bytes(m)
            return [b[:0x4000]], [b[0x4000:]]
        return [bytes(x) for x in m.roms], [bytes(x) for x in m.banks]

    def mapping(self):
        """(rom index, bank at 0xC000, bank at 0x4000, bank at 0x8000) as seen by the Python-visible Memory object."""
        m = self.sim.memory
        def idx(seq, obj):
            for i, x in enumerate(seq):
                if x is obj:
                    return i
            return -1
        return (idx(m.roms, m.memory[0]), idx(m.banks, m.memory[3]), idx(m.banks, m.memory[1]), idx(m.banks, m.memory[2]))

def get_replica(kind, machine):
    key = (kind, machine)
    if key not in _replicas:
        _replicas[key] = Replica(kind, machine)
    return _replicas[key]

class RefMachine:
    """RefZ80 + reference memory/paging model + the world's read stream."""
    def __init__(self, machine):
        self.machine = machine
        self.is128 = machine != '48K'
        frame = 70908 if self.is128 else 69888
        self.cpu = RefZ80(frame, 36 if self.is128 else 32)
        self.cpu.peek = self.peek
        self.cpu.poke = self.poke
        self.roms = _roms[machine]
        self.ula = RefULA(machine)

    def reset(self, st):
        if self.is128:
            self.banks = [bytearray(b) for b in st['banks']]
            self.o7ffd = st['o7ffd']
        else:
            self.ram = bytearray(st['ram'])
            self.o7ffd = 0
        self.cpu.reg[:] = st['regs']
        tr = st['tracer']
        self.reads = st['reads']
        self.n = 0
        if tr['present']:
            self.cpu.read_port = self.read_port
            self.cpu.write_port = self.write_port
            self.cpu.in_r_c_reads = tr['in_r_c']
            self.cpu.ini_reads = tr['ini']
        else:
            self.cpu.read_port = None
            self.cpu.write_port = None
        self.paging_without_tracer = False

    def read_port(self, port):
        v = self.reads[self.n % len(self.reads)]
        self.n += 1
        return v

    def write_port(self, port, value):
        if self.is128 and port & 0x8002 == 0 and not self.o7ffd & 0x20:
            self.o7ffd = value

    def peek(self, a):
        if not self.is128:
            return self.ram[a - 0x4000] if a >= 0x4000 else self.roms[0][a]
        seg = a >> 14
        if seg == 0:
            return self.roms[(self.o7ffd >> 4) & 1][a]
        if seg == 1:
            return self.banks[5][a & 0x3FFF]
        if seg == 2:
            return self.banks[2][a & 0x3FFF]
        return self.banks[self.o7ffd & 7][a & 0x3FFF]

    def poke(self, a, v):
        if a < 0x4000:
            return False
        if not self.is128:
            self.ram[a - 0x4000] = v
            return True
        seg = a >> 14
        if seg == 1:
            self.banks[5][a & 0x3FFF] = v
        elif seg == 2:
            self.banks[2][a & 0x3FFF] = v
        else:
            self.banks[self.o7ffd & 7][a & 0x3FFF] = v
        return True

    def rams(self):
        if self.is128:
            return [bytes(b) for b in self.banks]
        return [bytes(self.ram)]

_refs = {}

def get_ref(machine):
    if machine not in _refs:
        _refs[machine] = RefMachine(machine)
    return _refs[machine]

# ---------------------------------------------------------------------------

def materialise_state(scn):
    machine, ram = gen_prog.materialise(scn['mem'])
    st = {'machine': machine, 'regs': list(scn['regs']), 'tracer': scn['tracer'], 'reads': scn['reads'] or [255]}
    if machine == '48K':
        st['ram'] = bytes(ram)
    else:
        st['banks'] = [bytes(b) for b in ram]
        st['o7ffd'] = scn['mem'].get('o7ffd', 0)
    return st

class Violation(Exception):
    def __init__(self, prop, vclass, detail):
        Exception.__init__(self, vclass)
        self.prop = prop
        self.vclass = vclass
        self.detail = detail

def _fmt_regs(regs):
    return ' '.join('%s=%d' % (REGNAMES[i], v) for i, v in enumerate(regs) if i != 13)

def _first_diff(a, b, skip=()):
    for i in range(30):
        if i in skip or i == 13:
            continue
        if a[i] != b[i]:
            return i
    return -1

def run(scn, props, stats=None, sigs=None):
    """Execute a lock-step scenario.  Returns None or raises Violation (first one found)."""
    if stats is None:
        stats = {}
    def bump(k, n=1):
        stats[k] = stats.get(k, 0) + n
    st = materialise_state(scn)
    machine = st['machine']
    is128 = machine != '48K'
    frame = 70908 if is128 else 69888
    int_active = 36 if is128 else 32
    kinds = scn['replicas']
    reps = [get_replica(k, machine) for k in kinds]
    for rp in reps:
        rp.reset(st)
    want_ref = bool(props & {'C05', 'C19'})
    ref = None
    if want_ref:
        ref = get_ref(machine)
        ref.reset(st)
    by_kind = dict(zip(kinds, reps))
    plain = [r for r in reps if not r.cmio and r.kind != 'pyfast']
    cm = [r for r in reps if r.cmio]
    fast = by_kind.get('pyfast')
    steps = scn['steps']
    ints = set(scn.get('ints', ()))
    ckpt = 1 if steps <= 8 else 32
    init_roms = {r.kind: r.phys()[0] for r in reps} if 'C08' in props else None
    tracer_present = st['tracer']['present']
    # paging model driven by each replica's own OUT log (C08)
    own_o7ffd = {r.kind: st.get('o7ffd', 0) for r in reps}
    log_pos = {r.kind: 0 for r in reps}
    prev_rams = {r.kind: r.phys()[1] for r in reps} if 'C08' in props else None
    ref_plain_t = st['regs'][T]
    fast_ahead = False
    slot_desc = ''
    sim_t = 0

    vis_acc = {r.kind: set((5, 2, st.get('o7ffd', 0) & 7)) for r in reps}
    for ev in range(steps):
        pre = {r.kind: r.regs() for r in reps}
        lp = {r.kind: (len(r.world.log) if r.world is not None else 0) for r in reps}
        base = pre[plain[0].kind] if plain else pre[cm[0].kind]
        pc0 = base[PC]
        # --- STEP --------------------------------------------------------------
        info = None
        if ref is not None:
            ref_pre = list(ref.cpu.reg)
            ref_o7ffd_pre = ref.o7ffd
            info = ref.cpu.step()
            slot_desc = '%s%02X %s' % (info.slot[0], info.slot[1], info.name)
            if sigs is not None:
                sigs.add(info.slot)
        for r in reps:
            if r is fast:
                if fast_ahead:
                    continue
            try:
                r.step()
            except Exception as e:
                raise Violation('C06' if 'C06' in props else sorted(props)[0], 'exception/%s/%s' % (r.kind, type(e).__name__),
                                'replica %s raised %s: %s at event %d pc=%d' % (r.kind, type(e).__name__, e, ev, pc0))
        post = {r.kind: r.regs() for r in reps}
        bump('events')
        if plain:
            sim_t += post[plain[0].kind][T] - pre[plain[0].kind][T]
        elif cm:
            sim_t += post[cm[0].kind][T] - pre[cm[0].kind][T]

        # fast replica synchronisation: exact replicas iterate until their clock reaches the fast one's
        if fast is not None and plain:
            tf, te = post['pyfast'][T], post[plain[0].kind][T]
            if tf > te:
                if not fast_ahead:
                    bump('fault:CLOCK_JUMP(fast_ldir/djnz)')
                fast_ahead = True
            elif tf == te:
                fast_ahead = False
            else:
                if 'C06' in props:
                    raise Violation('C06', 'C06/pyfast-behind', 'pyfast clock %d fell behind exact clock %d at event %d (%s)' % (tf, te, ev, slot_desc))
                fast_ahead = False

        # --- C08 invariants ------------------------------------------------------
        if 'C08' in props:
            for r in reps:
                if r is fast and fast_ahead:
                    continue
                g = post[r.kind]
                for i, v in enumerate(g):
                    if i == 13 or i == T:
                        continue
                    lim = 65535 if i in MAX16 else (1 if i in (IFF, HALT) else (2 if i == IM else 255))
                    if not 0 <= v <= lim:
                        raise Violation('C08', 'C08/range/%s' % REGNAMES[i], '%s: register %s=%d out of range after event %d (%s pc=%d)' % (r.kind, REGNAMES[i], v, ev, slot_desc, pc0))
                if g[T] < pre[r.kind][T]:
                    raise Violation('C08', 'C08/clock-decreased', '%s: T went from %d to %d at event %d (%s)' % (r.kind, pre[r.kind][T], g[T], ev, slot_desc))
                # own paging model from own OUT log
                if r.world is not None and is128:
                    lg = r.world.log
                    for k in range(log_pos[r.kind], len(lg)):
                        kind_, port, value = lg[k]
                        if kind_ == 1 and port & 0x8002 == 0 and not own_o7ffd[r.kind] & 0x20:
                            own_o7ffd[r.kind] = value
                            bump('fault:PAGING_WRITE')
                        elif kind_ == 1 and port & 0x8002 == 0:
                            bump('probe:paging_write_after_lock')
                    log_pos[r.kind] = len(lg)
                    o = own_o7ffd[r.kind]
                    vis_acc[r.kind].add(o & 7)
                    mp = r.mapping()
                    if mp != ((o >> 4) & 1, o & 7, 5, 2):
                        raise Violation('C08', 'C08/paging/mapping', '%s: mapping (rom,bankC000,bank4000,bank8000)=%s but last accepted 0x7FFD write is %d, event %d (%s)' % (r.kind, mp, o, ev, slot_desc))
                    if r.sim.memory.o7ffd != o or r.world.out7ffd != o:
                        raise Violation('C08', 'C08/paging/o7ffd', '%s: memory.o7ffd=%d tracer.out7ffd=%d but last accepted write is %d, event %d' % (r.kind, r.sim.memory.o7ffd, r.world.out7ffd, o, ev))

        # --- C06: replicas agree ---------------------------------------------------
        if 'C06' in props:
            grp = [r for r in plain] + ([fast] if fast is not None and not fast_ahead else [])
            for a, b in zip(grp, grp[1:]):
                d = _first_diff(post[a.kind], post[b.kind], skip=(MEMPTR,))
                if d >= 0:
                    raise Violation('C06', 'C06/%s-vs-%s/reg.%s' % (a.kind, b.kind, REGNAMES[d]),
                                    '%s vs %s differ after event %d (%s at pc=%d): %s=%d vs %d\n pre : %s\n %s: %s\n %s: %s' % (
                                        a.kind, b.kind, ev, slot_desc, pc0, REGNAMES[d], post[a.kind][d], post[b.kind][d],
                                        _fmt_regs(pre[a.kind]), a.kind, _fmt_regs(post[a.kind]), b.kind, _fmt_regs(post[b.kind])))
                if a.world is not None and a.world.log != b.world.log:
                    raise Violation('C06', 'C06/%s-vs-%s/ports' % (a.kind, b.kind), '%s vs %s port logs differ after event %d (%s): %s vs %s' % (
                        a.kind, b.kind, ev, slot_desc, a.world.log[-3:], b.world.log[-3:]))
            if len(cm) == 2:
                a, b = cm
                d = _first_diff(post[a.kind], post[b.kind])
                if d >= 0:
                    raise Violation('C06', 'C06/%s-vs-%s/reg.%s' % (a.kind, b.kind, REGNAMES[d]),
                                    '%s vs %s differ after event %d (%s at pc=%d): %s=%d vs %d\n pre : %s\n %s: %s\n %s: %s' % (
                                        a.kind, b.kind, ev, slot_desc, pc0, REGNAMES[d], post[a.kind][d], post[b.kind][d],
                                        _fmt_regs(pre[a.kind]), a.kind, _fmt_regs(post[a.kind]), b.kind, _fmt_regs(post[b.kind])))
                if a.world is not None and a.world.log != b.world.log:
                    raise Violation('C06', 'C06/%s-vs-%s/ports' % (a.kind, b.kind), '%s vs %s port logs differ after event %d (%s)' % (a.kind, b.kind, ev, slot_desc))

        # --- C05: refinement of RefZ80 -----------------------------------------------
        if ref is not None:
            rr = ref.cpu.reg
            for r in reps:
                if r is fast:
                    continue
                g = post[r.kind]
                if 'C05' in props:
                    for i in range(29):
                        if i == 13 or i == T:
                            continue
                        if i == F:
                            if (g[F] ^ rr[F]) & info.mask:
                                raise Violation('C05', 'C05/%s/flags' % r.kind, '%s: F=%02X, reference F=%02X (documented mask %02X) after %s at pc=%d, event %d\n pre: %s\n got: %s\n ref: %s' % (
                                    r.kind, g[F], rr[F], info.mask, slot_desc, pc0, ev, _fmt_regs(pre[r.kind]), _fmt_regs(g), _fmt_regs(rr)))
                            continue
                        if i == IM and info.name == 'IM' and info.slot[1] in (0x4E, 0x6E):
                            continue
                        if g[i] != rr[i]:
                            raise Violation('C05', 'C05/%s/reg.%s' % (r.kind, REGNAMES[i]), '%s: %s=%d, reference %d after %s at pc=%d, event %d\n pre: %s\n got: %s\n ref: %s' % (
                                r.kind, REGNAMES[i], g[i], rr[i], slot_desc, pc0, ev, _fmt_regs(pre[r.kind]), _fmt_regs(g), _fmt_regs(rr)))
                    for (addr, val) in info.writes:
                        if r.peek(addr) != ref.peek(addr):
                            raise Violation('C05', 'C05/%s/write' % r.kind, '%s: memory[%d]=%d, reference %d after %s at pc=%d, event %d' % (
                                r.kind, addr, r.peek(addr), ref.peek(addr), slot_desc, pc0, ev))
                    if r.world is not None:
                        exp = [(0 if p[0] == 'in' else 1, p[1], p[2]) for p in info.ports]
                        got = r.world.log[lp[r.kind]:]
                        if got != exp:
                            raise Violation('C05', 'C05/%s/ports' % r.kind, '%s: port events %s, reference %s after %s at pc=%d, event %d' % (
                                r.kind, got, exp, slot_desc, pc0, ev))
                if 'C05' in props and len(reps) == 1:
                    # bits the documentation leaves undefined (and bits 3/5) are taken over from the engine
                    # so that they cannot cause a disagreement later (PUSH AF, JP PE, ...)
                    und = ~info.mask & 0xFF
                    rr[F] = (rr[F] & info.mask) | (g[F] & und)
                    if info.name == 'IM' and info.slot[1] in (0x4E, 0x6E):
                        rr[IM] = g[IM]
                dt = g[T] - pre[r.kind][T]
                if not r.cmio:
                    if 'C05' in props and dt != info.t:
                        raise Violation('C05', 'C05/%s/tstates' % r.kind, '%s: %d T-states, reference %d for %s at pc=%d, event %d\n pre: %s' % (
                            r.kind, dt, info.t, slot_desc, pc0, ev, _fmt_regs(pre[r.kind])))
                else:
                    t0 = pre[r.kind][T] % frame
                    want = ref.ula.total_delay(t0, info.cycles, ref_o7ffd_pre)
                    extra = dt - info.t
                    if want:
                        bump('probe:contended_delay_nonzero')
                    if 'C19' in props:
                        if extra < 0:
                            raise Violation('C19', 'C19/%s/faster-than-plain' % r.kind, '%s: %d T-states < uncontended %d for %s at pc=%d T=%d, event %d' % (
                                r.kind, dt, info.t, slot_desc, pc0, t0, ev))
                        if extra != want:
                            raise Violation('C19', 'C19/%s/delay' % r.kind, '%s: extra delay %d, ULA model %d for %s at pc=%d frame-T=%d o7ffd=%d, event %d\n cycles=%s\n pre: %s' % (
                                r.kind, extra, want, slot_desc, pc0, t0, ref_o7ffd_pre, ev, info.cycles, _fmt_regs(pre[r.kind])))
                    elif 'C05' in props and extra != want:
                        # T of contended engines is judged by C19; C05 only requires the uncontended part
                        pass

        # --- C19: contended twin == plain twin ------------------------------------------
        if 'C19' in props:
            for pk, ck in (('py', 'pycmio'), ('c', 'ccmio')):
                if pk in by_kind and ck in by_kind:
                    gp, gc = post[pk], post[ck]
                    skip = (T, MEMPTR)
                    for i in range(29):
                        if i in skip or i == 13:
                            continue
                        va, vb = gp[i], gc[i]
                        if i == F and info is not None and info.name == 'BIT':
                            va &= 0xD7
                            vb &= 0xD7
                        elif i == F:
                            # bits 3 and 5 may depend on MEMPTR for a few instructions; compare documented bits + report
                            if (va ^ vb) & 0x28 and not (va ^ vb) & 0xD7:
                                bump('probe:f35_differs_plain_vs_cmio')
                                va &= 0xD7
                                vb &= 0xD7
                        if va != vb:
                            raise Violation('C19', 'C19/%s-vs-%s/reg.%s' % (pk, ck, REGNAMES[i]), '%s vs %s differ in %s (%d vs %d) after event %d (%s at pc=%d)\n pre: %s' % (
                                pk, ck, REGNAMES[i], gp[i], gc[i], ev, slot_desc, pc0, _fmt_regs(pre[pk])))
                    if gc[T] - pre[ck][T] < gp[T] - pre[pk][T]:
                        raise Violation('C19', 'C19/%s/faster-than-plain' % ck, '%s took %d T, %s took %d T for %s at event %d' % (
                            ck, gc[T] - pre[ck][T], pk, gp[T] - pre[pk][T], slot_desc, ev))
                    if by_kind[pk].world is not None and by_kind[pk].world.log != by_kind[ck].world.log:
                        raise Violation('C19', 'C19/%s-vs-%s/ports' % (pk, ck), 'port logs differ after event %d (%s)' % (ev, slot_desc))

        # --- INT offered by the scheduler at this boundary -------------------------------------
        if ev in ints and not fast_ahead:
            cur = post[plain[0].kind] if plain else post[cm[0].kind]
            if cur[IFF]:
                # consistency of the two refusal rules (opcode byte at prev_pc vs what was executed)
                refused_model = None
                if info is not None:
                    refused_model = info.ei or info.lone_prefix
                accepted = {}
                for r in reps:
                    accepted[r.kind] = bool(r.offer_int(pc0))
                vals = set(accepted.values())
                bump('fault:INT_OFFERED')
                if len(vals) > 1 and 'C06' in props:
                    raise Violation('C06', 'C06/accept-interrupt', 'accept_interrupt results differ at event %d after %s: %s' % (ev, slot_desc, accepted))
                acc = accepted[reps[0].kind]
                if acc:
                    bump('fault:INT_ACCEPTED')
                else:
                    bump('probe:int_refused_after_ei_or_prefix')
                if ref is not None:
                    if refused_model != (not acc):
                        if 'C05' in props and not _byte_rule_artifact(ref, pc0, info):
                            raise Violation('C05', 'C05/interrupt-acceptance', 'interrupt offered after %s at pc=%d: replicas accepted=%s, reference says refuse=%s' % (slot_desc, pc0, acc, refused_model))
                        # keep the reference in step with the replicas
                    if acc:
                        iinfo = ref.cpu.accept_interrupt()
                post2 = {r.kind: r.regs() for r in reps}
                if 'C06' in props:
                    grp = plain + ([fast] if fast is not None else [])
                    for a, b in zip(grp, grp[1:]):
                        d = _first_diff(post2[a.kind], post2[b.kind], skip=(MEMPTR,))
                        if d >= 0:
                            raise Violation('C06', 'C06/%s-vs-%s/int/reg.%s' % (a.kind, b.kind, REGNAMES[d]), 'after interrupt at event %d: %s=%d vs %d' % (ev, REGNAMES[d], post2[a.kind][d], post2[b.kind][d]))
                    if len(cm) == 2:
                        d = _first_diff(post2[cm[0].kind], post2[cm[1].kind])
                        if d >= 0:
                            raise Violation('C06', 'C06/pycmio-vs-ccmio/int/reg.%s' % REGNAMES[d], 'after interrupt at event %d: %s=%d vs %d' % (ev, REGNAMES[d], post2[cm[0].kind][d], post2[cm[1].kind][d]))
                if ref is not None and acc and 'C05' in props:
                    rr = ref.cpu.reg
                    for r in reps:
                        g = post2[r.kind]
                        for i in (PC, SP, IFF, HALT, R, IM, I):
                            if g[i] != rr[i]:
                                raise Violation('C05', 'C05/%s/int/reg.%s' % (r.kind, REGNAMES[i]), '%s after interrupt: %s=%d, reference %d (event %d, IM %d)' % (r.kind, REGNAMES[i], g[i], rr[i], ev, rr[IM]))
                        if g[T] - post[r.kind][T] != iinfo.t:
                            raise Violation('C05', 'C05/%s/int/tstates' % r.kind, '%s: interrupt acceptance took %d T, reference %d' % (r.kind, g[T] - post[r.kind][T], iinfo.t))
                        for (addr, val) in iinfo.writes:
                            if r.peek(addr) != ref.peek(addr):
                                raise Violation('C05', 'C05/%s/int/write' % r.kind, '%s: stack byte at %d = %d, reference %d' % (r.kind, addr, r.peek(addr), ref.peek(addr)))
                if 'C08' in props:
                    for r in reps:
                        if post2[r.kind][T] < post[r.kind][T]:
                            raise Violation('C08', 'C08/clock-decreased', '%s: T decreased across interrupt' % r.kind)

        # --- checkpoints: full memory --------------------------------------------------------------
        if (ev + 1) % ckpt == 0 or ev == steps - 1:
            if fast_ahead and ev != steps - 1:
                continue
            mems = {}
            for r in reps:
                if r is fast and fast_ahead:
                    continue
                try:
                    mems[r.kind] = r.phys()
                except ValueError as e:
                    raise Violation('C08', 'C08/range/cell', '%s: a memory cell is outside 0..255 by event %d (%s)' % (r.kind, ev, e))
            if 'C08' in props:
                for k, (roms, rams) in mems.items():
                    for i, rom in enumerate(roms):
                        if rom != init_roms[k][i]:
                            j = next(x for x in range(0x4000) if rom[x] != init_roms[k][i][x])
                            raise Violation('C08', 'C08/rom-modified', '%s: ROM %d byte %d changed from %d to %d by event %d (last %s at pc=%d)' % (k, i, j, init_roms[k][i][j], rom[j], ev, slot_desc, pc0))
                    if is128 and by_kind[k].world is not None:
                        # writes may only land in banks that were visible at some point since the last checkpoint
                        vis = vis_acc[k]
                        for bi in range(8):
                            if rams[bi] != prev_rams[k][bi] and bi not in vis:
                                raise Violation('C08', 'C08/paging/hidden-bank-written', '%s: bank %d changed while not visible (visible %s) at event %d (%s)' % (k, bi, sorted(vis), ev, slot_desc))
                    prev_rams[k] = rams
                    vis_acc[k] = set((5, 2, own_o7ffd[k] & 7))
            if 'C06' in props:
                names = [k for k in mems if k not in ('pycmio', 'ccmio')]
                for a, b in zip(names, names[1:]):
                    if mems[a][1] != mems[b][1]:
                        raise Violation('C06', 'C06/%s-vs-%s/memory' % (a, b), '%s vs %s RAM differs by event %d: %s' % (a, b, ev, _memdiff(mems[a][1], mems[b][1])))
                if 'pycmio' in mems and 'ccmio' in mems and mems['pycmio'][1] != mems['ccmio'][1]:
                    raise Violation('C06', 'C06/pycmio-vs-ccmio/memory', 'RAM differs by event %d: %s' % (ev, _memdiff(mems['pycmio'][1], mems['ccmio'][1])))
            if ref is not None and 'C05' in props:
                rm = ref.rams()
                for k, (roms, rams) in mems.items():
                    if k == 'pyfast':
                        continue
                    if rams != rm:
                        raise Violation('C05', 'C05/%s/memory' % k, '%s RAM differs from reference by event %d (last %s at pc=%d): %s' % (k, ev, slot_desc, pc0, _memdiff(rams, rm)))
            if 'C19' in props:
                for pk, ck in (('py', 'pycmio'), ('c', 'ccmio')):
                    if pk in mems and ck in mems and mems[pk][1] != mems[ck][1]:
                        raise Violation('C19', 'C19/%s-vs-%s/memory' % (pk, ck), 'RAM differs by event %d: %s' % (ev, _memdiff(mems[pk][1], mems[ck][1])))
    stats['sim_tstates'] = stats.get('sim_tstates', 0) + sim_t
    return None

def _byte_rule_artifact(ref, prev_pc, info):
    """SkoolKit decides 'previous instruction was EI / a lone prefix' from the byte now at prev_pc.
    If the program overwrote that byte the two rules legitimately disagree; not judged."""
    b = ref.peek(prev_pc)
    by_byte = b == 0xFB or (b in (0xDD, 0xFD) and ref.cpu.reg[PC] == (prev_pc + 1) & 0xFFFF)
    by_exec = info.ei or info.lone_prefix
    return by_byte != by_exec

def _memdiff(a, b):
    for bi, (x, y) in enumerate(zip(a, b)):
        if x != y:
            j = next(i for i in range(len(x)) if x[i] != y[i])
            return 'bank/segment %d offset %d: %d vs %d' % (bi, j, x[j], y[j])
    return 'no difference?'

# ---------------------------------------------------------------------------
# C19: per-step comparison of a contended engine with its plain twin

class ShadowRef:
    """RefZ80 used as a decoder/executor on a copy of the plain twin's pre-state: memory reads come
    from the twin's memory, writes are dropped, port reads peek the world's next values."""
    def __init__(self, machine):
        self.is128 = machine != '48K'
        self.cpu = RefZ80(70908 if self.is128 else 69888, 36 if self.is128 else 32)
        self.cpu.poke = lambda a, v: a >= 0x4000
        self.ula = RefULA(machine)

    def decode(self, twin, pre, tracer):
        self.cpu.reg[:] = pre
        mem = twin.sim.memory
        self.cpu.peek = lambda a: mem[a]
        if twin.world is not None:
            w = twin.world
            k = [w.n]
            def rd(port):
                v = w.reads[k[0] % len(w.reads)]
                k[0] += 1
                return v
            self.cpu.read_port = rd
            self.cpu.write_port = lambda p, v: None
            self.cpu.in_r_c_reads = tracer['in_r_c']
            self.cpu.ini_reads = tracer['ini']
        else:
            self.cpu.read_port = None
            self.cpu.write_port = None
        return self.cpu.step()

_shadows = {}

def run_c06_frames(scn, stats, sigs):
    """The frame sweep as a replica comparison: py vs c and pycmio vs ccmio at every frame T-state of the chunk."""
    from . import frames
    tpl = frames.TEMPLATES[scn['template']]
    machine = scn['machine']
    is128 = machine != '48K'
    frame = 70908 if is128 else 69888
    regs0 = frames.state_regs(tpl)
    mem = {'machine': machine, 'patches': [[regs0[PC], bytes(tpl[1]).hex()]], 'o7ffd': scn['o7ffd']}
    if is128:
        mem['banks'] = [{'fill': 0}] * 8
    else:
        mem['ram'] = {'fill': 0}
    base = {'kind': 'wstep', 'machine': machine, 'mem': mem, 'regs': regs0, 'tracer': {'present': True, 'in_r_c': True, 'ini': True}, 'reads': [0xFF], 'steps': 1}
    st = materialise_state(base)
    for p, q in (('py', 'c'), ('pycmio', 'ccmio')):
        P, Q = get_replica(p, machine), get_replica(q, machine)
        P.reset(st)
        Q.reset(st)
        rP, rQ = P.sim.registers, Q.sim.registers
        cmp_regs = tuple(i for i in range(30) if i != 13 and (i != 29 or P.cmio))
        for t in (t for lo, hi in frames.ranges_of(scn) for t in range(lo, hi)):
            t_abs = t + frame * scn.get('frame_no', 1)
            for i in range(30):
                rP[i] = regs0[i]
                rQ[i] = regs0[i]
            rP[T] = rQ[T] = t_abs
            P.world.n = Q.world.n = 0
            del P.world.log[:]
            del Q.world.log[:]
            P.step()
            Q.step()
            stats['events'] = stats.get('events', 0) + 1
            for i in cmp_regs:
                if rP[i] != rQ[i]:
                    raise Violation('C06', 'C06/%s-vs-%s/frames/reg.%s' % (p, q, REGNAMES[i]), '%s vs %s: %s=%d vs %d after %s (%s o7ffd=%d) started at frame-T=%d (T=%d)' % (
                        p, q, REGNAMES[i], rP[i], rQ[i], tpl[0], machine, scn['o7ffd'], t, t_abs))
            if P.world.log != Q.world.log:
                raise Violation('C06', 'C06/%s-vs-%s/frames/ports' % (p, q), 'port logs differ after %s at frame-T=%d' % (tpl[0], t))
            stats['sim_tstates'] = stats.get('sim_tstates', 0) + rQ[T] - t_abs
        sigs.add((tpl[0], p))
    stats['frame_sweep_steps'] = stats.get('frame_sweep_steps', 0) + sum(hi - lo for lo, hi in frames.ranges_of(scn)) * 2

def run_c19_frames(scn, stats, sigs):
    """One instruction template at every frame T-state in [t_lo, t_hi) (see frames.py)."""
    from . import frames
    def bump(k, n=1):
        stats[k] = stats.get(k, 0) + n
    tpl = frames.TEMPLATES[scn['template']]
    machine = scn['machine']
    is128 = machine != '48K'
    frame = 70908 if is128 else 69888
    regs0 = frames.state_regs(tpl)
    mem = {'machine': machine, 'ram': {'fill': 0}, 'patches': [[regs0[PC], bytes(tpl[1]).hex()]], 'o7ffd': scn['o7ffd']}
    if is128:
        del mem['ram']
        mem['banks'] = [{'fill': 0}] * 8
    base = {'kind': 'wstep', 'machine': machine, 'mem': mem, 'regs': regs0, 'tracer': {'present': True, 'in_r_c': True, 'ini': True}, 'reads': [0xFF], 'steps': 1}
    st = materialise_state(base)
    if machine not in _shadows:
        _shadows[machine] = ShadowRef(machine)
    sh = _shadows[machine]
    o7 = scn['o7ffd'] if is128 else 0
    for p, q in (('py', 'pycmio'), ('c', 'ccmio')):
        P, Q = get_replica(p, machine), get_replica(q, machine)
        P.reset(st)
        Q.reset(st)
        rP, rQ = P.sim.registers, Q.sim.registers
        for t in (t for lo, hi in frames.ranges_of(scn) for t in range(lo, hi)):
            t_abs = t + frame * scn.get('frame_no', 1)        # never the first frame: T must not go negative for the reference
            for i in range(30):
                rP[i] = regs0[i]
                rQ[i] = regs0[i]
            rP[T] = rQ[T] = t_abs
            P.world.n = Q.world.n = 0
            del P.world.log[:]
            del Q.world.log[:]
            pre = list(rP)
            info = sh.decode(P, pre, st['tracer'])
            P.step()
            Q.step()
            gP, gQ = list(rP), list(rQ)
            bump('events')
            bump('frame_sweep_steps')
            for i in range(29):
                if i in (13, T):
                    continue
                va, vb = gP[i], gQ[i]
                if i == F:
                    va &= 0xD7
                    vb &= 0xD7
                if va != vb:
                    raise Violation('C19', 'C19/%s-vs-%s/reg.%s' % (p, q, REGNAMES[i]), '%s vs %s differ in %s (%d vs %d) after %s (%s o7ffd=%d) at frame-T=%d' % (
                        p, q, REGNAMES[i], gP[i], gQ[i], tpl[0], machine, o7, t))
            if P.world.log != Q.world.log:
                raise Violation('C19', 'C19/%s-vs-%s/ports' % (p, q), 'port logs differ after %s at frame-T=%d: %s vs %s' % (tpl[0], t, P.world.log, Q.world.log))
            extra = (gQ[T] - t_abs) - (gP[T] - t_abs)
            stats['sim_tstates'] = stats.get('sim_tstates', 0) + gQ[T] - t_abs
            want = sh.ula.total_delay(t, info.cycles, o7)
            if want:
                bump('probe:contended_delay_nonzero')
            else:
                bump('probe:no_delay_expected')
            if gP[T] - t_abs != info.t:
                raise Violation('C19', 'C19/%s/plain-tstates' % p, '%s took %d T for %s, reference %d' % (p, gP[T] - t_abs, tpl[0], info.t))
            if extra < 0:
                raise Violation('C19', 'C19/%s/faster-than-plain' % q, '%s took %d T, %s %d T for %s (%s o7ffd=%d) at frame-T=%d' % (q, gQ[T] - t_abs, p, gP[T] - t_abs, tpl[0], machine, o7, t))
            if extra != want and info.alt_cycles is not None:
                alt = sh.ula.total_delay(t, info.alt_cycles, o7)
                if extra == alt:
                    want = alt
            if extra != want:
                raise Violation('C19', 'C19/%s/delay' % q, '%s: extra delay %d, ULA model %d for %s (%s o7ffd=%d) at frame-T=%d\n cycles=%s' % (
                    q, extra, want, tpl[0], machine, o7, t, info.cycles))
            sigs.add((info.slot, t % 8))
    return sum(hi - lo for lo, hi in frames.ranges_of(scn)) * 2

def run_c19(scn, stats, sigs):
    def bump(k, n=1):
        stats[k] = stats.get(k, 0) + n
    st = materialise_state(scn)
    machine = st['machine']
    is128 = machine != '48K'
    frame = 70908 if is128 else 69888
    pairs = [(p, q) for p, q in (('py', 'pycmio'), ('c', 'ccmio')) if p in scn['replicas'] and q in scn['replicas']]
    reps = {}
    for p, q in pairs:
        for k in (p, q):
            reps[k] = get_replica(k, machine)
            reps[k].reset(st)
    if machine not in _shadows:
        _shadows[machine] = ShadowRef(machine)
    sh = _shadows[machine]
    steps = scn['steps']
    ints = set(scn.get('ints', ()))
    ckpt = 1 if steps <= 8 else 32
    sim_t = 0
    for ev in range(steps):
        for p, q in pairs:
            P, Q = reps[p], reps[q]
            # the plain twin follows the contended engine's clock so that both start the step from the same state
            P.sim.registers[T] = Q.sim.registers[T]
            preP, preQ = P.regs(), Q.regs()
            o7 = P.sim.memory.o7ffd if is128 else 0
            info = sh.decode(P, preP, st['tracer'])
            slot_desc = '%s%02X %s' % (info.slot[0], info.slot[1], info.name)
            pc0 = preP[PC]
            t0 = preQ[T] % frame
            sigs.add((info.slot, t0 % 8))
            for r in (P, Q):
                try:
                    r.step()
                except Exception as e:
                    raise Violation('C19', 'C19/exception/%s/%s' % (r.kind, type(e).__name__), '%s raised %s: %s at event %d (%s pc=%d)' % (r.kind, type(e).__name__, e, ev, slot_desc, pc0))
            gP, gQ = P.regs(), Q.regs()
            bump('events')
            for i in range(29):
                if i in (13, T):
                    continue
                va, vb = gP[i], gQ[i]
                if i == F:
                    if (va ^ vb) & 0x28:
                        bump('probe:f35_differs_plain_vs_cmio')
                    va &= 0xD7
                    vb &= 0xD7
                if va != vb:
                    raise Violation('C19', 'C19/%s-vs-%s/reg.%s' % (p, q, REGNAMES[i]), '%s vs %s differ in %s (%d vs %d) after %s at pc=%d frame-T=%d, event %d\n pre: %s' % (
                        p, q, REGNAMES[i], gP[i], gQ[i], slot_desc, pc0, t0, ev, _fmt_regs(preQ)))
            if P.world is not None and P.world.log != Q.world.log:
                raise Violation('C19', 'C19/%s-vs-%s/ports' % (p, q), 'port logs differ after %s at pc=%d, event %d: %s vs %s' % (slot_desc, pc0, ev, P.world.log[-2:], Q.world.log[-2:]))
            dP, dQ = gP[T] - preP[T], gQ[T] - preQ[T]
            sim_t += dQ
            extra = dQ - dP
            want = sh.ula.total_delay(t0, info.cycles, o7)
            if want:
                bump('probe:contended_delay_nonzero')
            else:
                bump('probe:no_delay_expected')
            if extra < 0:
                raise Violation('C19', 'C19/%s/faster-than-plain' % q, '%s took %d T, %s %d T for %s at pc=%d frame-T=%d, event %d\n pre: %s' % (q, dQ, p, dP, slot_desc, pc0, t0, ev, _fmt_regs(preQ)))
            if extra != want and info.alt_cycles is not None:
                alt = sh.ula.total_delay(t0, info.alt_cycles, o7)
                bump('probe:otir_repeat_bc_reading_matters')
                if extra == alt:
                    want = alt
            if extra != want:
                raise Violation('C19', 'C19/%s/delay' % q, '%s: extra delay %d, ULA model %d for %s at pc=%d frame-T=%d o7ffd=%d, event %d\n cycles=%s\n pre: %s' % (
                    q, extra, want, slot_desc, pc0, t0, o7, ev, info.cycles, _fmt_regs(preQ)))
            # MEMPTR-dependent flag bits are re-synchronised so they cannot propagate (statement: "aside")
            if (gP[F] ^ gQ[F]) & 0x28:
                Q.sim.registers[F] = gP[F]
            if ev in ints and gP[IFF]:
                tP, tQ = gP[T], gQ[T]
                aP, aQ = bool(P.offer_int(pc0)), bool(Q.offer_int(pc0))
                bump('fault:INT_OFFERED')
                if aP != aQ:
                    raise Violation('C19', 'C19/%s-vs-%s/accept-interrupt' % (p, q), 'accept_interrupt: %s=%s %s=%s after %s, event %d' % (p, aP, q, aQ, slot_desc, ev))
                hP, hQ = P.regs(), Q.regs()
                if hP[T] - tP != hQ[T] - tQ:
                    raise Violation('C19', 'C19/%s/int-tstates' % q, 'interrupt acceptance took %d T (contended) vs %d T (plain)' % (hQ[T] - tQ, hP[T] - tP))
                for i in (PC, SP, IFF, IM, HALT, R):
                    if hP[i] != hQ[i]:
                        raise Violation('C19', 'C19/%s-vs-%s/int/reg.%s' % (p, q, REGNAMES[i]), 'after interrupt: %s %d vs %d' % (REGNAMES[i], hP[i], hQ[i]))
        if (ev + 1) % ckpt == 0 or ev == steps - 1:
            for p, q in pairs:
                try:
                    mp, mq = reps[p].phys(), reps[q].phys()
                except ValueError as e:
                    raise Violation('C19', 'C19/cell-range', str(e))
                if mp[1] != mq[1]:
                    raise Violation('C19', 'C19/%s-vs-%s/memory' % (p, q), 'RAM differs by event %d: %s' % (ev, _memdiff(mp[1], mq[1])))
    stats['sim_tstates'] = stats.get('sim_tstates', 0) + sim_t
