"""C05 - the Z80 simulators implement documented Z80 instruction semantics.

Step-by-step refinement of all four cores (plus the Python fast paths' exact twin) against
RefZ80 while simulated machines run.  No schedule/fault dimension exists for a single
instruction; the simulator contributes state reach and the reference-model oracle (DESIGN.md 5/C05).
"""
import hashlib

from . import gen_lock, lockstep, exhaust
from .harness import new_result, fail, bump

PROP = 'C05'
RUNS = {'quick': 120000, 'thorough': 3000000}
BUDGET_S = {'quick': 150, 'thorough': 2400}
CHUNK = 100
PROPS = {'C05'}
REPLICAS = ['py', 'c', 'pycmio', 'ccmio']

def init():
    lockstep.init()

def _force_tracer_on_128k(scn):
    # the 128K pager is machine-level, not Z80 semantics: C05 always runs 128K machines with the paging tracer attached
    if scn['machine'] != '48K':
        scn['tracer']['present'] = True
    return scn

B8 = (0x00, 0x01, 0x0F, 0x10, 0x7F, 0x80, 0xFE, 0xFF, 0x99, 0x9A, 0x66, 0x0A, 0xA0)
B16 = gen_lock.B16
BF = (0x00, 0x01, 0xFF, 0x10, 0x11, 0x02, 0x03, 0x12, 0x13, 0x40, 0x80, 0x04, 0xD7, 0xD6)

def gen_regsweep(rng, tier, index):
    """Boundary-value sweep of one dispatch slot on one engine: many register states drawn independently from
    small boundary pools (so that e.g. operand = 0x7FFF with carry set is reached within one scenario)."""
    slot = (index // 4) % gen_lock.N_SLOTS
    code = gen_lock.slot_bytes(rng, slot)
    return {'kind': 'regsweep', 'slot': slot, 'code': code, 'engine': REPLICAS[index % 4], 'machine': '48K', 'cseed': rng.getrandbits(48),
            'cases': 96 if tier == 'quick' else 1500, 'pc': rng.choice((0x8000, 0xC000, 0x6000, 0xFFF0))}

def sweep_state(rng, pc):
    state = [0] * 30
    for i in list(range(0, 12)) + list(range(16, 24)):
        state[i] = rng.choice(B8) if rng.random() < 0.8 else rng.randrange(256)
    state[1] = rng.choice(BF) if rng.random() < 0.8 else rng.randrange(256)
    for hi in (2, 4, 6, 8, 10):
        if rng.random() < 0.6:
            v = rng.choice(B16)
            state[hi], state[hi + 1] = v >> 8, v & 0xFF
    state[12] = rng.choice(B16 + (0x9000, 0x9000, 0x9000))
    if rng.random() < 0.3:
        # operands whose sum or difference sits exactly on a carry / overflow / half-carry boundary, with or without
        # the carry-in: HL (or IX/IY) + rr (+1) in {0xFFFF, 0x10000, 0x7FFF, 0x8000, 0x0FFF, 0x1000, 0}
        bhi = rng.choice((6, 6, 8, 10))
        base = state[bhi] * 256 + state[bhi + 1]
        k = rng.choice((0xFFFF, 0x10000, 0x7FFF, 0x8000, 0x0FFF, 0x1000, 0x0000, 0x0001))
        v = ((k - base - rng.randrange(2)) if rng.random() < 0.5 else (base - k + rng.randrange(2))) & 0xFFFF
        tgt = rng.choice((2, 4, 12))
        if tgt == 12:
            state[12] = v
        else:
            state[tgt], state[tgt + 1] = v >> 8, v & 0xFF
    if rng.random() < 0.2:
        # BC on the edges that matter to the block I/O instructions (port = BC, or (B-1):C; MEMPTR = port +/- 1)
        bc = rng.choice((0x00FF, 0x0100, 0x0000, 0xFFFF, 0x01FF, 0xFF00, 0x0001, 0x80FD, 0x7FFD, 0x00FD))
        state[2], state[3] = bc >> 8, bc & 0xFF
    state[14] = rng.randrange(256)
    state[15] = rng.choice((0, 0x7F, 0x80, 0xFF, rng.randrange(256)))
    state[24] = pc
    state[25] = rng.randrange(0, 69888)
    state[26] = rng.randrange(2)
    state[27] = rng.randrange(3)
    return state

def run_regsweep(scn):
    import random
    from .refz80 import F, T, PC
    res = new_result()
    rng = random.Random(scn['cseed'])
    mem = {'machine': '48K', 'ram': {'fill': 0}, 'patches': [[scn['pc'], bytes(scn['code']).hex()]]}
    base = {'kind': 'wstep', 'machine': '48K', 'mem': mem, 'regs': [0] * 30, 'tracer': {'present': True, 'in_r_c': True, 'ini': True}, 'reads': [0xFF], 'steps': 1, 'ints': [], 'replicas': [scn['engine']]}
    st = lockstep.materialise_state(base)
    rp = lockstep.get_replica(scn['engine'], '48K')
    rp.reset(st)
    ref = lockstep.get_ref('48K')
    ref.reset(st)
    regs = rp.sim.registers
    n = 0
    for case in range(scn['cases']):
        state = sweep_state(rng, scn['pc'])
        for i, v in enumerate(state):
            regs[i] = v
        ref.cpu.reg[:] = state
        ref.n = 0
        if rp.world is not None:
            rp.world.n = 0
            del rp.world.log[:]
        info = ref.cpu.step()
        rp.step()             # memory writes, if any, are made identically on both sides (values are judged by W-step)
        got = rp.regs()
        rr = ref.cpu.reg
        n += 1
        for i in range(29):
            if i == 13 or i == T:
                continue
            a, b = got[i], rr[i]
            if i == F:
                a &= info.mask
                b &= info.mask
            if i == 27 and info.name == 'IM' and info.slot[1] in (0x4E, 0x6E):
                continue
            if a != b:
                return fail(res, 'C05/%s/sweep/reg.%s' % (scn['engine'], lockstep.REGNAMES[i]), '%s: %s=%d, reference %d after %s%02X %s (boundary sweep case %d)\n pre: %s\n got: %s\n ref: %s' % (
                    scn['engine'], lockstep.REGNAMES[i], got[i], rr[i], info.slot[0], info.slot[1], info.name, case, lockstep._fmt_regs(state), lockstep._fmt_regs(got), lockstep._fmt_regs(rr)))
        if not rp.cmio and got[T] - state[T] != info.t:
            return fail(res, 'C05/%s/sweep/tstates' % scn['engine'], '%s: %d T-states, reference %d for %s%02X %s\n pre: %s' % (scn['engine'], got[T] - state[T], info.t, info.slot[0], info.slot[1], info.name, lockstep._fmt_regs(state)))
    bump(res, 'events', n)
    bump(res, 'sweep_cases', n)
    res['sigs'] = ['sweep|%s%02X|%s' % (info.slot[0], info.slot[1], scn['engine'])]
    res['digest'] = hashlib.sha256(('%d|%d' % (scn['slot'], n)).encode()).hexdigest()
    return res

NX = len(exhaust.TEMPLATES) * 4
NC = len(exhaust.CLOCK_TEMPLATES) * 4

def gen(rng, tier, index):
    if NX <= index < NX + NC:
        return {'kind': 'exhaust', 'template': list(exhaust.CLOCK_TEMPLATES[(index - NX) // 4]), 'engine': REPLICAS[index % 4], 'machine': '48K'}
    if index < len(exhaust.TEMPLATES) * 4:
        # the first scenarios of every batch are the exhaustive 8-bit table sweeps: every template chunk on every engine
        return {'kind': 'exhaust', 'template': list(exhaust.TEMPLATES[index // 4]), 'engine': REPLICAS[index % 4], 'machine': '48K'}
    if index % 5 == 4:
        return gen_regsweep(rng, tier, index // 5)
    if index % 160 == 13:
        # run(start, stop, interrupts) of one engine against a reference run loop (interrupt scheduling inside run())
        from . import p06
        scn = p06.gen_batch(rng, tier, index)
        scn['kind'] = 'runloop'
        scn['replicas'] = [('py', 'c', 'pyfast')[(index // 160) % 3]]
        return scn
    index = index - index // 5
    # one engine per scenario: undefined flag bits are taken over from that engine after every step,
    # so a scenario cannot mix engines (they may legitimately differ there only if C06 is broken)
    rep = [REPLICAS[(index // 8) % 4]]
    if index % 8 < 6:
        scn = gen_lock.gen_wstep(rng, tier, index // 32 * 6 + index % 8, rep)
    else:
        scn = gen_lock.gen_wprog(rng, tier, index, rep)
    return _force_tracer_on_128k(scn)

def run_exhaust(scn):
    res = new_result()
    runner = exhaust.run_clock if scn['template'][0] == 'clock' else exhaust.run
    bad, n = runner(tuple(scn['template']), [scn['engine']], True, lambda vc, d: (vc, d))
    bump(res, 'events', n)
    bump(res, 'table_entries_executed', n)
    if bad:
        return fail(res, bad[0], bad[1])
    res['sigs'] = ['exhaust|%s|%s' % ('-'.join(str(x) for x in scn['template']), scn['engine'])]
    res['digest'] = hashlib.sha256(('%s|%d' % (scn['template'], n)).encode()).hexdigest()
    return res

def run_runloop(scn):
    """Simulator.run(start, stop, interrupts) against a reference loop: RefZ80 steps; after each instruction the
    maskable interrupt is accepted iff interrupts are requested, IFF is set, the clock stands inside the INT-active
    window and the instruction was neither EI nor a lone prefix.  Judged: PC, SP, IFF, IM, HALT, R and the clock
    (where the run loop's scheduling shows); register contents are judged by the step scenarios."""
    from . import p06
    from .refz80 import PC, SP, IFF, IM, HALT, R, T
    res = new_result()
    engine = scn['replicas'][0]
    st = lockstep.materialise_state(scn)
    machine = st['machine']
    frame = 70908 if machine != '48K' else 69888
    int_active = 36 if machine != '48K' else 32
    lockstep.get_replica(engine, machine)
    if engine == 'c':
        p06._chelper.submit(scn)
        finals = p06._chelper.result(30)
        if finals is None:
            res['discard'] = 'batch program does not reach its stop address within the time limit'
            return res
        if 'error' in finals:
            return fail(res, 'C05/runloop/exception', 'C engine raised %s' % finals['error'])
    else:
        finals, timed_out = p06._batch_finals(scn, [engine], 3)
        if timed_out:
            res['discard'] = 'batch program does not reach its stop address within the time limit'
            return res
    ref = lockstep.get_ref(machine)
    ref.reset(st)
    cpu = ref.cpu
    reg = cpu.reg
    start, stop = st['regs'][24], scn['stop']
    code = range(min(start, stop), max(start, stop) + 4)
    n = 0
    first = True
    while first or reg[PC] != stop:
        first = False
        info = cpu.step()
        n += 1
        if n > 300000:
            res['discard'] = 'reference run loop exceeds 300000 steps'
            return res
        if any(a in code for a, v in info.writes):
            res['discard'] = 'program writes into its own code (byte-based EI/prefix rule not judged)'
            return res
        if scn['interrupts'] and reg[IFF] and reg[T] % frame < int_active and not (info.ei or info.lone_prefix):
            iinfo = cpu.accept_interrupt()
            bump(res, 'fault:INT_ACCEPTED')
            if any(a in code for a, v in iinfo.writes):
                res['discard'] = 'interrupt pushes into the code'
                return res
    got = finals[engine][0]
    bump(res, 'events', n)
    bump(res, 'runloop_runs')
    for i in (PC, SP, IFF, IM, HALT, R, T):
        if got[i] != reg[i]:
            return fail(res, 'C05/%s/runloop/%s' % (engine, lockstep.REGNAMES[i]), '%s.run(%d, %d, interrupts=%s): %s=%d, reference run loop %d after %d instructions\n engine: %s\n ref   : %s' % (
                engine, start, stop, scn['interrupts'], lockstep.REGNAMES[i], got[i], reg[i], n, lockstep._fmt_regs(got), lockstep._fmt_regs(reg)))
    res['sigs'] = ['runloop|%s|%s|%s' % (engine, machine, scn['interrupts'])]
    res['digest'] = hashlib.sha256(repr([reg[i] for i in (PC, SP, R, T)]).encode()).hexdigest()
    return res

def run(scn):
    if scn['kind'] == 'runloop':
        return run_runloop(scn)
    if scn['kind'] == 'exhaust':
        return run_exhaust(scn)
    if scn['kind'] == 'regsweep':
        return run_regsweep(scn)
    res = new_result()
    sigs = set()
    try:
        lockstep.run(scn, PROPS, res['stats'], sigs)
    except lockstep.Violation as v:
        return fail(res, v.vclass, v.detail)
    res['sigs'] = ['%s%02X' % (g, op) for (g, op) in sigs]
    res['digest'] = hashlib.sha256(repr(sorted(res['stats'].items())).encode()).hexdigest()
    return res

def sample(scn, res):
    if scn['kind'] in ('regsweep', 'exhaust'):
        return scn
    if scn['kind'] == 'runloop':
        return {k: v for k, v in scn.items() if k != 'mem'}
    return {'kind': scn['kind'], 'machine': scn['machine'], 'slot': scn.get('slot'), 'steps': scn['steps'], 'ints': scn['ints'],
            'regs': scn['regs'], 'tracer': scn['tracer'], 'patches': scn['mem']['patches'][-1:]}

def shrink_candidates(scn):
    if scn['kind'] in ('regsweep', 'exhaust', 'runloop'):
        return []
    return gen_lock.shrink_candidates(scn)

def describe():
    return {
        'rule': 'table sweeps (exhaust.py): every entry of every 8-bit flag/result table executed on every engine and compared with RefZ80 (first 1256 scenarios of each batch); register sweeps: boundary-value pools per dispatch slot; then each executed instruction of each replica is compared with RefZ80 (registers, documented flags only, memory writes, port events, T-states; contended engines: T minus RefULA delay is judged by C19). Distinct = distinct dispatch slots (prefix group, opcode) decoded by RefZ80 among executed instructions.',
        'assumptions': ['RefZ80 is the harness author\'s reading of the Zilog manual + agreed undocumented behaviour; bits 3/5 of F, MEMPTR and documented-undefined flags are not compared',
                        'IM result of ED4E/ED6E is not compared; halted CPU keeps PC on the HALT opcode (SkoolKit convention) and leaves it when an interrupt is due',
                        '128K machines always have the paging tracer attached (paging is not Z80 semantics)'],
        'components': {'real': ['Simulator', 'CSimulator', 'CMIOSimulator', 'CCMIOSimulator', 'simtables / C init_* tables'],
                       'reference': ['RefZ80 (zxsim/refz80.py)', 'RefPaging memory model'], 'harness': ['World tracer', 'generators']},
        'probes': [],
        'design_ref': 'DESIGN.md section 5, C05',
    }
