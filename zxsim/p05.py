"""C05 - the Z80 simulators implement documented Z80 instruction semantics.

Step-by-step refinement of all four cores (plus the Python fast paths' exact twin) against
RefZ80 while simulated machines run.  No schedule/fault dimension exists for a single
instruction; the simulator contributes state reach and the reference-model oracle (DESIGN.md 5/C05).
"""
import hashlib

from . import gen_lock, lockstep
from .harness import new_result, fail, bump

PROP = 'C05'
RUNS = {'quick': 30000, 'thorough': 1500000}
BUDGET_S = {'quick': 150, 'thorough': 2400}
CHUNK = 400
PROPS = {'C05'}
REPLICAS = ['py', 'c', 'pycmio', 'ccmio']

def init():
    lockstep.init()

def _force_tracer_on_128k(scn):
    # the 128K pager is machine-level, not Z80 semantics: C05 always runs 128K machines with the paging tracer attached
    if scn['machine'] != '48K':
        scn['tracer']['present'] = True
    return scn

def gen(rng, tier, index):
    # one engine per scenario: undefined flag bits are taken over from that engine after every step,
    # so a scenario cannot mix engines (they may legitimately differ there only if C06 is broken)
    rep = [REPLICAS[(index // 8) % 4]]
    if index % 8 < 6:
        scn = gen_lock.gen_wstep(rng, tier, index // 32 * 6 + index % 8, rep)
    else:
        scn = gen_lock.gen_wprog(rng, tier, index, rep)
    return _force_tracer_on_128k(scn)

def run(scn):
    res = new_result()
    sigs = set()
    try:
        lockstep.run(scn, PROPS, res['stats'], sigs)
    except lockstep.Violation as v:
        return fail(res, v.vclass, v.detail)
    res['sigs'] = ['%s%02X' % (g, op) for (g, op) in sigs]
    res['digest'] = hashlib.sha256(repr(sorted(res['stats'].items())).encode()).hexdigest()
    return res

def sample(scn, res):
    return {'kind': scn['kind'], 'machine': scn['machine'], 'slot': scn.get('slot'), 'steps': scn['steps'], 'ints': scn['ints'],
            'regs': scn['regs'], 'tracer': scn['tracer'], 'patches': scn['mem']['patches'][-1:]}

shrink_candidates = gen_lock.shrink_candidates

def describe():
    return {
        'rule': 'each executed instruction of each replica is compared with RefZ80 (registers, documented flags only, memory writes, port events, T-states; contended engines: T minus RefULA delay is judged by C19). Distinct = distinct dispatch slots (prefix group, opcode) decoded by RefZ80 among executed instructions.',
        'assumptions': ['RefZ80 is the harness author\'s reading of the Zilog manual + agreed undocumented behaviour; bits 3/5 of F, MEMPTR and documented-undefined flags are not compared',
                        'IM result of ED4E/ED6E is not compared; halted CPU keeps PC on the HALT opcode (SkoolKit convention) and leaves it when an interrupt is due',
                        '128K machines always have the paging tracer attached (paging is not Z80 semantics)'],
        'components': {'real': ['Simulator', 'CSimulator', 'CMIOSimulator', 'CCMIOSimulator', 'simtables / C init_* tables'],
                       'reference': ['RefZ80 (zxsim/refz80.py)', 'RefPaging memory model'], 'harness': ['World tracer', 'generators']},
        'probes': [],
        'design_ref': 'DESIGN.md section 5, C05',
    }
