"""Custom-loader tapes for C13.

A custom loader = the ROM's LD-BYTES routine (bytes 0x0556-0x05EC of the 48K ROM, relocated into RAM) whose
tape-sampling loop is replaced by the code signature of a named accelerator taken from
loadsample.ACCELERATORS itself.  It is delivered by a bin2tap tape (so the ROM, BASIC and bin2tap's loader all
run first) and then loads headerless turbo blocks from a second tape (TZX 0x11, TZX 0x12+0x13+0x14, or PZX
PULS+DATA+PAUS) whose pulse timings are scaled to the loop time of the sampling loop and jittered inside the
loader's tolerance.
"""
import json
import os
import random

from . import prng, tapeload

_rom = None
FAMILY = {}

def init():
    global _rom
    import skoolkit
    from skoolkit.loadsample import ACCELERATORS, BYTE
    with open(os.path.join(os.path.dirname(skoolkit.__file__), 'resources', '48.rom'), 'rb') as f:
        _rom = f.read()
    FAMILY.clear()
    for name, (n, code, off, counter, inc, loop_time, loop_r, ear, mask, pol) in ACCELERATORS.items():
        # the shape the relocated ROM routine can host: counts upwards in B, EAR copy in C, mask 0x20/0x40,
        # loops back with JR Z while no edge is seen
        if counter == 2 and inc == 1 and ear == 3 and mask in (0x20, 0x40) and pol == 0 and len(code) >= 3 and code[-2] == 0x28 and code[-1] is not BYTE:
            if (256 - code[-1]) != len(code):
                continue
            FAMILY[name] = (list(code), off, loop_time, mask, BYTE)
    init_profiles()

def loader_bytes(base, name, dec_a_jp=False):
    """-> (code bytes, offset of LD-BYTES entry) for a loader at address `base`."""
    code, off, loop_time, mask, BYTE = FAMILY[name]
    part1 = bytearray(_rom[0x0556:0x05E3])
    n1 = len(part1)
    edge2 = base + n1
    edge1 = edge2 + 4
    def fix(addr, target):
        o = addr - 0x0556
        part1[o + 1] = target & 0xFF
        part1[o + 2] = target >> 8
    for a in (0x056C, 0x0591, 0x059B):
        fix(a, edge1)
    for a in (0x057B, 0x0582, 0x05CA):
        fix(a, edge2)
    fix(0x05D5, base + (0x05CA - 0x0556))
    # LD HL,$0415 -> LD HL,$0020: the wait after the first edge is 30 ms instead of one second.  With the ROM's
    # one-second wait a turbo pilot of 1.5-2 s survives at most one restart of the leader search, and whether
    # the first measured pulse pair is "too short" (-> restart) depends on a sampling phase of a few dozen
    # T-states that legitimately differs between timing-changing configurations (fast-load, cmio): such a tape
    # "loads" only by luck.  With a short wait a restart costs nothing and the tape loads for every phase.
    assert part1[0x0571 - 0x0556:0x0574 - 0x0556] == bytes((0x21, 0x15, 0x04))
    part1[0x0572 - 0x0556] = 0x20
    part1[0x0573 - 0x0556] = 0x00
    if mask == 0x40:
        part1[0x0564 - 0x0556] = 0x00      # no RRA: the EAR bit stays in bit 6
        part1[0x0566 - 0x0556] = 0x40
    out = bytearray(part1)
    out += bytes((0xCD, edge1 & 0xFF, edge1 >> 8, 0xD0))          # LD-EDGE-2: CALL LD-EDGE-1; RET NC
    if dec_a_jp:
        a = base + len(out) + 2
        out += bytes((0x3E, 0x19, 0x3D, 0xC2, a & 0xFF, a >> 8))   # LD A,25; DEC A; JP NZ,$-1   (350 T)
    else:
        out += bytes((0x3E, 0x16, 0x3D, 0x20, 0xFD))               # LD A,22; DEC A; JR NZ,$-1   (347 T)
    out += bytes((0xA7,))                                          # AND A
    loop_at = base + len(out)
    tail_len = 11
    fail_stub = loop_at + len(code) + tail_len
    filled = []
    i = 0
    while i < len(code):
        b = code[i]
        if b is BYTE:
            prev = filled[-1] if filled else None
            # how many wildcards in a row
            j = i
            while j < len(code) and code[j] is BYTE:
                j += 1
            k = j - i
            if prev == 0x3E and k == 1:
                filled.append(0x7F)
            elif prev in (0xCA, 0xC2, 0xD2, 0xDA, 0xC3) and k == 2:
                filled += [fail_stub & 0xFF, fail_stub >> 8]
            else:
                filled += ([0xAF, 0xC9] + [0x00] * k)[:k]       # XOR A; RET  (counter overflow => load error)
            i = j
        else:
            filled.append(b)
            i += 1
    out += bytes(filled)
    out += bytes((0x79, 0x2F, 0x4F, 0xE6, 0x07, 0xF6, 0x08, 0xD3, 0xFE, 0x37, 0xC9))
    out += bytes((0xAF, 0xC9)) * 24                                  # landing pad for forward jumps on overflow
    return bytes(out), 0

def gen_custom(rng, tier, index):
    names = sorted(FAMILY)
    name = names[(index // 3) % len(names)] if rng.random() < 0.8 else rng.choice(names)
    loop_time = FAMILY[name][2]
    nblocks = rng.choice((1, 1, 2, 3))
    blocks = []
    total = 0
    for _ in range(nblocks):
        n = prng.log_uniform(rng, 1, 120 if tier == 'quick' else 1500)
        total += n
        s = (loop_time / 59.0) * rng.uniform(0.96, 1.05)
        blocks.append({
            'len': n, 'seed': rng.getrandbits(48), 'flag': rng.choice((0xFF, 0x00, rng.randrange(256))),
            'pilot': int(2168 * s), 'pilot_len': rng.choice((3223, 3223, 4001, 8063)), 'sync1': int(667 * s), 'sync2': int(735 * s),
            'zero': int(855 * s), 'one': int(1710 * s), 'pause_ms': rng.choice((1000, 1500, 2500)),
            'form': rng.choice(('tzx11', 'tzx11', 'tzx12-13-14', 'pzx')), 'used_bits': 8,
            'dest': 0,
        })
    tape2 = 'pzx' if any(b['form'] == 'pzx' for b in blocks) else 'tzx'
    for b in blocks:
        if tape2 == 'pzx':
            b['form'] = 'pzx'
        elif b['form'] == 'pzx':
            b['form'] = 'tzx11'
    base = rng.choice((0x8000, 0x9000, 0xBF00, 0xC000, 0xE000, rng.randrange(0x8000, 0xF000)))
    scn = {
        'source': 'custom', 'loader': name, 'base': None, 'lbase': base, 'dec_a_jp': rng.random() < 0.35, 'blocks': blocks,
        'r0': rng.choice((None, 0x80, 0xFF, 0xA5, rng.randrange(256), rng.randrange(128, 256))),
        'tape_fmt': rng.choice(('tap', 'pzx')), 'order_seed': rng.getrandbits(32), 'size': total + 400, 'machine': '48',
    }
    scn['base'] = {'polarity': rng.choice((0, 0, 1)), 'first-edge': rng.choice((0, 0, 1000, prng.log_uniform(rng, 1, 300000))), 'finish-tape': rng.choice((0, 0, 1))}
    from . import p13
    scn['variants'] = p13.gen_variants(rng, total + 250, tier, names=(name,))
    # DEC A delay loops run before the first block while interrupts are still enabled (the stub is entered from
    # BASIC; the loader's DI comes later): drawn from a PRNG of its own so that the other choices keep their values
    r2 = random.Random(scn['order_seed'] ^ 0xDECA)
    if r2.random() < 0.5:
        scn['deca'] = _gen_deca(r2)
    return scn

def _gen_deca(r2):
    return {'n': r2.choice((0, 0, 0, 1, 2, 255, r2.randrange(256))), 'k': r2.choice((2, 8, 20, 40))}

PROBE_PULSE = 65535

def wrap_with_decoy(tap_path, decoy, wd):
    """Re-pack a TAP file as TZX standard-speed blocks and insert a *pilotless* pure-data block (TZX 0x14) holding a
    plausible 'Bytes' header with ROM bit timings - optionally preceded by exactly one pulse.  A real load cannot
    lock on to a block without a leader, so every configuration must ignore it."""
    with open(tap_path, 'rb') as f:
        tap = f.read()
    blocks = []
    i = 0
    while i + 2 <= len(tap):
        n = tap[i] | (tap[i + 1] << 8)
        blocks.append(tap[i + 2:i + 2 + n])
        i += 2 + n
    # tap2sna chooses LOAD "" or LOAD ""CODE from the first header on the tape: a decoy placed first carries the type of
    # the real first header (a BASIC program), otherwise it would change the command that is simulated
    hdr = bytes((0x00, 0x00 if decoy['pos'] == 0 else 0x03)) + b'decoy     ' + _word(decoy['len']) + _word(decoy['addr']) + _word(0x8000)
    par = 0
    for b in hdr:
        par ^= b
    hdr += bytes((par,))
    dblock = b''
    if decoy.get('one_pulse'):
        dblock += bytes((0x13, 1)) + _word(decoy['one_pulse'])
    dblock += bytes((0x14,)) + _word(855) + _word(1710) + bytes((8,)) + _word(decoy['pause_ms']) + bytes((len(hdr), 0, 0)) + hdr
    out = bytearray(b'ZXTape!\x1a\x01\x14')
    pos = min(decoy['pos'], len(blocks))
    for k, b in enumerate(blocks):
        if k == pos:
            out += dblock
        out += bytes((0x10,)) + _word(1000) + _word(len(b)) + b
    if pos >= len(blocks):
        out += dblock
    path = os.path.join(wd, 'decoy.tzx')
    with open(path, 'wb') as f:
        f.write(out)
    return path

def same_shape(name):
    """Other loader families whose sampling loop has the same length, IN offset and EAR mask (so that one can be
    copied over the other without moving the IN instruction) but different code."""
    code, off, lt, mask, _ = FAMILY[name]
    return sorted(n for n, (c2, o2, lt2, m2, _) in FAMILY.items() if n != name and len(c2) == len(code) and o2 == off and m2 == mask and c2 != code)

def gen_late(rng, tier, index):
    """A loader that keeps interrupts enabled (IM 2 frame counter) and arrives late at its second block: the first
    block has (almost) no pause after it and the program idles for one to three frames before it calls the loader
    again, so with pause=1 the tape waits and the clock is set back to the block's first edge across one or more
    frame boundaries.  (pause=0 is not compared here: a late loader hearing a different part of the pilot is the
    documented purpose of that option.)"""
    scn = gen_custom(rng, tier, index)
    scn['lbase'] = rng.choice((0x8000, 0x9000, 0xBF00, 0xC000, 0xE000, rng.randrange(0x8000, 0xE000)))
    b1 = scn['blocks'][0]
    b1['len'] = min(b1['len'], 40)
    b1['pause_ms'] = rng.choice((0, 0, 1, 3))
    b2 = json.loads(json.dumps(b1))
    b2['seed'] = rng.getrandbits(48)
    b2['len'] = rng.randrange(1, 40)
    b2['pause_ms'] = rng.choice((1000, 1500))
    for b in (b1, b2):
        b['pilot_len'] = 8063       # the late loader still finds more than a second of pilot when the tape does not wait
    scn['blocks'] = [b1, b2]
    scn['r0'] = None
    scn['late'] = {'delay': rng.choice((3000, 6000, 9000, rng.randrange(2800, 12000))), 'ints': True}
    scn['deca'] = _gen_deca(random.Random(scn['order_seed'] ^ 0x1DECA))     # IM 2 frame counter running across the DEC A loops
    scn['size'] = b1['len'] + b2['len'] + 500
    scn['variants'] = [v for v in scn['variants'] if v['pause'] == 1]
    return scn

def gen_press(rng, tier, index):
    """128K machine, tape paused at the second turbo block for a keypress (tap2sna --press): the program writes to
    0x7FFD while the keypress tracer is active, and again after the load has resumed."""
    scn = gen_custom(rng, tier, index)
    scn['lbase'] = rng.choice((0x8000, 0x9000, rng.randrange(0x8000, 0xA000)))
    scn['tape_fmt'] = 'tap'
    scn['r0'] = None
    b1 = scn['blocks'][0]
    b1['len'] = min(b1['len'], 30)
    b1['form'] = 'tzx11'
    b2 = json.loads(json.dumps(b1))
    b2['seed'] = rng.getrandbits(48)
    b2['len'] = rng.randrange(1, 30)
    scn['blocks'] = [b1, b2]
    # bit 4 stays set: the relocated loader returns through SA/LD-RET in the 48K ROM
    v1 = 0x10 | rng.choice((rng.randrange(8), 0x20 | rng.randrange(8), 0x20 | rng.randrange(8), rng.randrange(256) & 0xEF))
    v2 = 0x10 | rng.choice((rng.randrange(8), rng.randrange(8), rng.randrange(256) & 0xEF))
    scn['press'] = {'v1': v1, 'v2': v2, 'marker': rng.choice((0xA5, 0x5A, 0xC3, rng.randrange(1, 256)))}
    scn['machine'] = '128'
    scn['kind'] = 'press128'
    scn['python'] = rng.random() < 0.5
    scn['size'] = b1['len'] + b2['len'] + 500
    return scn

def gen_repatch(rng, tier, index):
    """Two turbo blocks; between them the program copies a second loader (another family of the same shape) over
    the first, so the code around the same IN address changes while the tape session continues."""
    names = sorted(n for n in FAMILY if same_shape(n))
    for _ in range(20):
        scn = gen_custom(rng, tier, index)
        if scn['loader'] in names:
            break
        scn = None
    if scn is None:
        scn = gen_custom(rng, tier, index)
        scn['loader'] = rng.choice(names)
    name2 = rng.choice(same_shape(scn['loader']))
    b1 = scn['blocks'][0]
    b1['len'] = min(b1['len'], 40)
    b2 = json.loads(json.dumps(b1))
    b2['seed'] = rng.getrandbits(48)
    b2['len'] = rng.randrange(1, 40)
    s2 = (FAMILY[name2][2] / 59.0) * rng.uniform(0.97, 1.04)
    b2.update({'pilot': int(2168 * s2), 'sync1': int(667 * s2), 'sync2': int(735 * s2), 'zero': int(855 * s2), 'one': int(1710 * s2)})
    scn['blocks'] = [b1, b2]
    scn['repatch'] = name2
    scn['size'] = b1['len'] + b2['len'] + 500
    return scn

def gen_landing(rng, tier, index):
    """A custom-loader tape whose turbo block has one long pulse in the middle of its pilot tone (after enough pilot
    for the loader's one-second wait).  The loader's edge searches time out repeatedly while the pulse lasts; the length of the pulse is chosen at run time (probe, see p13._landing)
    so that the edge that ends it lands exactly on (or one T-state beside) an instant at which the loader
    samples the EAR bit or at which an accelerator's fast-forward ends."""
    scn = gen_custom(rng, tier, index)
    scn['blocks'] = scn['blocks'][:1]
    b = scn['blocks'][0]
    b['len'] = min(b['len'], 24)
    b['form'] = rng.choice(('tzx12-13-14', 'pzx'))
    b['pilot_len'] = 3223
    scn['tape_fmt'] = rng.choice(('tap', 'pzx'))
    scn['size'] = b['len'] + 400
    scn['n1'] = rng.choice((1801, 2001, 2401))     # odd: the extra pulses (n1 + 1) must not change the level at which the PZX DATA block starts
    scn['landing'] = {'kind': rng.choice(('ffwd', 'ffwd', 'entry', 'any')), 'pick': rng.random(), 'delta': rng.choice((0, 0, 0, 0, 1, -1)), 'pulse': None}
    name = scn['loader']
    def strict(**kw):
        d = {'accelerator': 'none', 'accelerate-dec-a': 0, 'pause': 1, 'python': 0, 'fast-load': 0, 'cmio': 0, 'group': 'strict'}
        d.update(kw)
        return d
    v = [strict(accelerator=rng.choice(('auto', name)), python=1, **{'accelerate-dec-a': rng.choice((0, 1, 3))}),
         strict(accelerator=rng.choice(('auto', name)), python=0, **{'accelerate-dec-a': rng.choice((0, 1, 3)), 'pause': rng.choice((0, 1))}),
         strict(accelerator='auto', python=rng.choice((0, 1)), order=rng.getrandbits(32), **{'accelerate-dec-a': rng.choice((0, 2))})]
    if rng.random() < 0.5:
        v.append(strict(accelerator=name, python=1, pause=0))
    v.append({'accelerator': 'none', 'accelerate-dec-a': 0, 'pause': 1, 'python': 0, 'fast-load': 0, 'cmio': 1, 'group': 'weak'})
    scn['variants'] = v
    return scn

def _word(n):
    return bytes((n & 0xFF, (n >> 8) & 0xFF))

def _block_bytes(b):
    data = random.Random(b['seed']).randbytes(b['len'])
    parity = b['flag']
    for x in data:
        parity ^= x
    return data, bytes((b['flag'],)) + data + bytes((parity,))

def tzx_bytes(blocks):
    out = bytearray(b'ZXTape!\x1a\x01\x14')
    # silence before the first block, so that the loader is already sampling when the first edge arrives
    # (a loader that is late hears a different pilot phase with pause=0 and pause=1: the option's documented purpose)
    out += bytes((0x20,)) + _word(2000)
    for b in blocks:
        data, full = _block_bytes(b)
        n = len(full)
        if b.get('lead'):
            # first part of the pilot (long enough for the loader's 1 s wait after the first edge), then the long pulse
            out += bytes((0x12,)) + _word(b['pilot']) + _word(b['lead']['n1'])
            out += bytes((0x13, 1)) + _word(b['lead']['pulse'])
        if b['form'] == 'tzx11':
            out += bytes((0x11,)) + _word(b['pilot']) + _word(b['sync1']) + _word(b['sync2']) + _word(b['zero']) + _word(b['one']) + _word(b['pilot_len'])
            out += bytes((b['used_bits'],)) + _word(b['pause_ms']) + bytes((n & 0xFF, (n >> 8) & 0xFF, n >> 16)) + full
        else:
            out += bytes((0x12,)) + _word(b['pilot']) + _word(b['pilot_len'])
            out += bytes((0x13, 2)) + _word(b['sync1']) + _word(b['sync2'])
            out += bytes((0x14,)) + _word(b['zero']) + _word(b['one']) + bytes((b['used_bits'],)) + _word(b['pause_ms']) + bytes((n & 0xFF, (n >> 8) & 0xFF, n >> 16)) + full
    return bytes(out)

def _dword(n):
    return bytes((n & 0xFF, (n >> 8) & 0xFF, (n >> 16) & 0xFF, (n >> 24) & 0xFF))

def pzx_bytes(blocks):
    out = bytearray(b'PZXT' + _dword(2) + bytes((1, 0)))
    out += b'PAUS' + _dword(4) + _dword(2000 * 3500)
    for b in blocks:
        data, full = _block_bytes(b)
        puls = b''
        if b.get('lead'):
            x = b['lead']['pulse']
            puls += _word(0x8000 | b['lead']['n1']) + _word(b['pilot'])
            puls += _word(x) if x < 0x8000 else _word(0x8001) + _word(0x8000 | (x >> 16)) + _word(x & 0xFFFF)
        puls += _word(0x8000 | b['pilot_len']) + _word(b['pilot']) + _word(b['sync1']) + _word(b['sync2'])
        out += b'PULS' + _dword(len(puls)) + puls
        body = _dword(0x80000000 | (len(full) * 8)) + _word(945) + bytes((2, 2)) + _word(b['zero']) * 2 + _word(b['one']) * 2 + full
        out += b'DATA' + _dword(len(body)) + body
        out += b'PAUS' + _dword(4) + _dword(b['pause_ms'] * 3500)
    return bytes(out)

def build(scn, wd):
    """-> (list of tape paths via extra args, start, machine, data ranges, skipped addresses)"""
    name = scn['loader']
    base = scn['lbase']
    deca = scn.get('deca')
    STUB = 0x48 if deca else 0x40           # scenarios without the delay routine keep their layout
    code, entry = loader_bytes(base + STUB, name, scn['dec_a_jp'])
    # driver stub at `base`: for each block LD IX,dest; LD DE,len; LD A,flag; SCF; CALL LD-BYTES; JR NC,fail  ... JP done
    stub = bytearray()
    if scn.get('r0') is not None:
        stub += bytes((0x3E, scn['r0'], 0xED, 0x4F))          # LD A,r0; LD R,A  (bit 7 of R is program state too)
    ldbytes = base + STUB + entry
    late = scn.get('late')
    isr = b''
    if late:
        # the loader keeps interrupts enabled: its DI becomes a NOP; an IM 2 routine counts frames
        code = bytearray(code)
        assert code[entry + 3] == 0xF3
        code[entry + 3] = 0x00
        code = bytes(code)
        isr_at = base + STUB + len(code)
        cnt = isr_at + 13
        isr = bytes((0xF5, 0xE5, 0x2A)) + _word(cnt) + bytes((0x23, 0x22)) + _word(cnt) + bytes((0xE1, 0xF1, 0xFB, 0xC9)) + bytes(3)    # 14 + 2 counter bytes (+1)
        # DI; LD A,0xFE; LD I,A; IM 2; LD HL,isr; LD (0xFEFF),HL; EI
        stub += bytes((0xF3, 0x3E, 0xFE, 0xED, 0x47, 0xED, 0x5E, 0x21)) + _word(isr_at) + bytes((0x22, 0xFF, 0xFE, 0xFB))
    code2 = b''
    if scn.get('repatch'):
        code2, entry2 = loader_bytes(base + STUB, scn['repatch'], scn['dec_a_jp'])
        if len(code2) != len(code) or entry2 != entry:
            raise tapeload.ToolError('repatch loaders differ in size')
    if deca:
        # delay subroutine behind the loader (both DEC A loop forms, entered with A = n; n = 0 means 256 iterations):
        #   LD B,k; L: LD A,n; DEC A; JR NZ,$-1; LD A,n; DEC A; JP NZ,$-1; DJNZ L; RET
        deca_at = base + STUB + len(code) + len(isr)
        isr = isr + bytes((0x06, deca['k'], 0x3E, deca['n'], 0x3D, 0x20, 0xFD, 0x3E, deca['n'], 0x3D, 0xC2)) + _word(deca_at + 9) + bytes((0x10, 0xF3, 0xC9))
    dest = (base + STUB + len(code) + len(isr) + len(code2) + 0x20) & 0xFFFF
    ranges = []
    blocks = scn['blocks']
    jr_at = []
    press = scn.get('press')
    if press:
        # key-wait subroutine placed after the loader: LD A,0xBF; IN A,(0xFE); RRA; JR C,$-7; RET   (ENTER = bit 0 of row 0xBF)
        isr = isr + bytes((0x3E, 0xBF, 0xDB, 0xFE, 0x1F, 0x38, 0xF9, 0xC9))
        wait_at = base + STUB + len(code) + len(isr) - 8
        dest = (dest + 8) & 0xFFFF
    for bi, b in enumerate(blocks):
        if bi == 1 and press:
            # wait for ENTER; write v1 to 0x7FFD (this happens while tap2sna's keypress tracer is active); wait for ENTER again
            stub += bytes((0xCD,)) + _word(wait_at) + bytes((0x01, 0xFD, 0x7F, 0x3E, press['v1'], 0xED, 0x79, 0xCD)) + _word(wait_at)
        if bi == 1 and late:
            # idle for `delay` iterations of 26 T-states: LD BC,n; DEC BC; LD A,B; OR C; JR NZ,$-3
            stub += bytes((0x01,)) + _word(late['delay']) + bytes((0x0B, 0x78, 0xB1, 0x20, 0xFB))
        if bi == 1 and code2:
            # LD HL,copy; LD DE,loader; LD BC,len; LDIR  - the second loader replaces the first in place
            stub += bytes((0x21,)) + _word(base + STUB + len(code) + len(isr)) + bytes((0x11,)) + _word(base + STUB) + bytes((0x01,)) + _word(len(code2)) + bytes((0xED, 0xB0))
        if bi == 0 and deca:
            stub += bytes((0xCD,)) + _word(deca_at)
        d = dest
        b['dest'] = d
        stub += bytes((0xDD, 0x21)) + _word(d) + bytes((0x11,)) + _word(b['len']) + bytes((0x3E, b['flag'], 0x37, 0xCD)) + _word(ldbytes)
        jr_at.append(len(stub))
        stub += bytes((0x30, 0x00))      # JR NC,fail  (patched below)
        ranges.append((d, d + b['len']))
        dest += b['len'] + 7
    if press:
        # after the last block: a second write to 0x7FFD and a marker byte stored through 0xC000
        stub += bytes((0x01, 0xFD, 0x7F, 0x3E, press['v2'], 0xED, 0x79, 0x3E, press['marker'], 0x32, 0x00, 0xC0))
    done = base + len(stub)
    stub += bytes((0xC3,)) + _word(done)         # done: JP done   (--start = done)
    fail = base + len(stub)
    stub += bytes((0xF3, 0x18, 0xFE))            # fail: DI; JR fail
    # patch JR NC displacements
    for at in jr_at:
        disp = (fail - base) - (at + 2)
        stub[at + 1] = disp & 0xFF
    if len(stub) > STUB:
        raise tapeload.ToolError('driver stub does not fit (%d bytes)' % len(stub))
    image = bytes(stub) + bytes(STUB - len(stub)) + code + isr + code2
    if dest >= 0x10000 or base + len(image) >= 0x10000:
        raise tapeload.ToolError('generated layout does not fit')
    binf = os.path.join(wd, 'loader.bin')
    with open(binf, 'wb') as f:
        f.write(image)
    tape1 = os.path.join(wd, 'loader.' + scn['tape_fmt'])
    tapeload.run_tool(tapeload.bin2tap, ['--org', str(base), '--start', str(base), '--stack', str(0x7F00), binf, tape1])
    is_pzx = any(b['form'] == 'pzx' for b in blocks)
    tape2 = os.path.join(wd, 'data.' + ('pzx' if is_pzx else 'tzx'))
    with open(tape2, 'wb') as f:
        f.write(pzx_bytes(blocks) if is_pzx else tzx_bytes(blocks))
    scn['extra_args'] = [tape1]
    if press:
        with open(tape1, 'rb') as f:
            t1 = f.read()
        n1, k = 0, 0
        while k + 2 <= len(t1):
            k += 2 + (t1[k] | (t1[k + 1] << 8))
            n1 += 1
        # tape 2 = [0x20 pause][block 1][block 2]: the tape is paused at its second data block
        scn['extra_args'] = ['--press', '%d:ENTER*2' % (n1 + 3), tape1]
    # tap2sna: INPUT INPUT OUTFILE  -> the second tape is passed as the 'tape' argument after the first
    return tape2, done, scn.get('machine', '48'), ranges, set()

def shrink_candidates(scn):
    def cp():
        return json.loads(json.dumps(scn))
    if len(scn['blocks']) > 1:
        for i in range(len(scn['blocks'])):
            c = cp(); del c['blocks'][i]; yield c
    for i, b in enumerate(scn['blocks']):
        if b['len'] > 1:
            c = cp(); c['blocks'][i]['len'] = max(1, b['len'] // 2); yield c
    if scn.get('dec_a_jp'):
        c = cp(); c['dec_a_jp'] = False; yield c
    if scn.get('deca'):
        c = cp(); del c['deca']; yield c
        if scn['deca']['k'] > 1:
            c = cp(); c['deca']['k'] //= 2; yield c

# ---------------------------------------------------------------------------
# (The pulse tape is always TZX: PZX blocks carry an initial pulse level, and a level mismatch is played as a
# zero-length pulse.  A real loader cannot load a block with such a pulse between sync and data, so tapes with
# them are outside "any tape that loads"; the accelerators treat the zero-length pulse as an edge, the literal
# sampling loop does not see it.)
# Pulse profiler: reaches every accelerator shape (any counter/EAR register, decrementing counters,
# IN A,(C), polarity-sensitive pairs).  The program calls the sampling loop - the accelerator's own code
# signature - once per tape edge and stores the counter register; accelerated and literal executions must
# leave identical buffers, registers, R and T.

PROFILES = {}

def init_profiles():
    from skoolkit.loadsample import ACCELERATORS, BYTE
    PROFILES.clear()
    pairs = {}
    for name, (n, code, off, counter, inc, loop_time, loop_r, ear, mask, pol) in ACCELERATORS.items():
        if ear == -1 and name[-2:] in ('-0', '-1'):
            pairs.setdefault(name[:-2], {})[name[-1]] = name
        else:
            PROFILES[name] = [name]
    for fam, d in pairs.items():
        if '0' in d and '1' in d:
            PROFILES[fam + '-*'] = [d['0'], d['1']]

def _sample_block(at, name, ret_pad):
    """Accelerator code at address `at`, wildcards filled, completed and followed by RET padding."""
    from skoolkit.loadsample import ACCELERATORS, BYTE
    n, code, off, counter, inc, loop_time, loop_r, ear, mask, pol = ACCELERATORS[name]
    filled = []
    i = 0
    while i < len(code):
        b = code[i]
        if b is BYTE:
            j = i
            while j < len(code) and code[j] is BYTE:
                j += 1
            k = j - i
            prev = filled[-1] if filled else None
            if prev == 0x3E and k == 1:
                filled.append(0x7F)
            elif prev in (0xCA, 0xC2, 0xD2, 0xDA, 0xC3) and k == 2:
                filled += [ret_pad & 0xFF, ret_pad >> 8]
            else:
                filled += ([0xAF, 0xC9] + [0x00] * k)[:k]
            i = j
        else:
            filled.append(b)
            i += 1
    if filled[-1] in (0xCA, 0xC2, 0xF2, 0xFA) and filled[-2] not in (0x28, 0x20):   # JP cc,loop start (address not part of the signature)
        filled += [at & 0xFF, at >> 8]
    out = bytes(filled) + bytes((0x00, 0xC9))             # (software-projects exits one byte past its end)
    return out + bytes((0xC9,)) * (0x60 - len(out))

def gen_profiler(rng, tier, index):
    names = sorted(PROFILES)
    fam = names[(index // 3) % len(names)] if rng.random() < 0.85 else rng.choice(names)
    from skoolkit.loadsample import ACCELERATORS
    acc = ACCELERATORS[PROFILES[fam][0]]
    loop_time = acc[5]
    inc = acc[4]
    nsamples = rng.choice((4, 8, 16, 30)) if tier == 'quick' else rng.choice((8, 30, 60, 120))
    pulses = []
    for _ in range(rng.randrange(2, 6)):
        kind = rng.random()
        if kind < 0.6:
            pulses.append(['tone', int(rng.choice((600, 855, 1100, 1710, 2168, 2500)) * rng.uniform(0.9, 1.1)), rng.randrange(20, 120)])
        else:
            # some pulses outlast the sampling loop's time-out (counter x loop time = 5000-13000 T): the loop gives up while
            # an accelerator may still be fast-forwarding it
            pulses.append(['seq', [int(rng.choice((300, 667, 735, 855, 1710, 2168, 4000, 1500, rng.choice((9000, 14000, 20000, 40000)) if rng.random() < 0.5 else 1500)) * rng.uniform(0.9, 1.1)) for _ in range(rng.randrange(2, 12))]])
    if not inc or rng.random() < 0.3:
        # at least one pulse that outlasts the time-out (always for the two decrementing-counter loop shapes, which appear
        # only once or twice in a quick batch)
        pulses.insert(rng.randrange(0, len(pulses) + 1), ['seq', [int(rng.choice((855, 2168)) * rng.uniform(0.9, 1.1)), rng.choice((9000, 14000, 20000, 40000, 60000)), int(rng.choice((855, 2168)) * rng.uniform(0.9, 1.1)), rng.choice((12000, 30000))]])
    scn = {
        'source': 'profiler', 'family': fam, 'names': PROFILES[fam], 'lbase': rng.choice((0x8000, 0x9000, 0xC000, 0xE000, rng.randrange(0x8000, 0xF000) & 0xFFF0)),
        'r0': rng.choice((0x22, 0x80, 0xFF, 0xA5, rng.randrange(256), rng.randrange(128, 256))), 'nsamples': nsamples, 'init': rng.randrange(1, 0x90) if inc else rng.randrange(0x70, 0x100), 'pulses': pulses, 'pause_ms': rng.choice((1000, 2000)),
        'tape_fmt': rng.choice(('tap', 'pzx')), 'tape2': 'tzx', 'order_seed': rng.getrandbits(32), 'size': 600, 'machine': '48',
        'base': {'polarity': rng.choice((0, 1)), 'first-edge': rng.choice((0, 0, 1000, prng.log_uniform(rng, 1, 300000))), 'finish-tape': 0},
    }
    if any(isinstance(b, int) and b == 0xED for b in acc[1]):
        scn['base']['in-flags'] = 4          # IN A,(C) forms are routed to the tape only with in-flags bit 2
    from . import p13
    scn['variants'] = p13.gen_variants(rng, 300, tier, names=tuple(PROFILES[fam]))
    return scn

def _assemble(items, org):
    """items: bytes | ('label', name) | ('jr', opcode, label) | ('jp', opcode, label)"""
    for _pass in range(2):
        out = bytearray()
        labels = {} if _pass == 0 else labels
        for it in items:
            if isinstance(it, (bytes, bytearray)):
                out += it
            elif it[0] == 'label':
                labels[it[1]] = org + len(out)
            elif it[0] == 'jr':
                tgt = labels.get(it[2], org)
                d = tgt - (org + len(out) + 2)
                if _pass == 1 and not -128 <= d <= 127:
                    raise tapeload.ToolError('relative jump out of range in generated profiler')
                out += bytes((it[1], d & 0xFF))
            elif it[0] == 'jp':
                tgt = labels.get(it[2], org)
                out += bytes((it[1],)) + _word(tgt)
    return bytes(out), labels

def build_profiler(scn, wd):
    from skoolkit.loadsample import ACCELERATORS
    base = scn['lbase']
    names = scn['names']
    blocks_at = [base + 0x100, base + 0x180]
    samples = [_sample_block(blocks_at[i], nm, blocks_at[i] + 0x58) for i, nm in enumerate(names)]
    n, code, off, counter, inc, loop_time, loop_r, ear, mask, pol = ACCELERATORS[names[0]]
    cr = counter - 2                                   # B=0 C=1 D=2 E=3 H=4 L=5
    buf = base + 0x200
    cnt = base + 0x1F0
    tocnt = base + 0x1F2
    items = [bytes((0xF3, 0x3E, scn.get('r0', 0x22), 0xED, 0x4F, 0xDD, 0x21)) + _word(buf), bytes((0x3E, scn['nsamples'], 0x32)) + _word(cnt), bytes((0x3E, 3000 & 0xFF, 0x32)) + _word(tocnt) + bytes((0x3E, 3000 >> 8, 0x32)) + _word(tocnt + 1)]
    if 0xED in code and code[code.index(0xED) + 1] == 0x78 and counter != 3 and ear != 3:
        items.append(bytes((0x0E, 0xFE)))              # LD C,0xFE for IN A,(C)
    flip = b''
    if ear >= 0:
        er = ear - 2
        items.append(bytes((0x3E, 0x7F, 0xDB, 0xFE)) + (bytes((0x1F,)) if mask == 0x20 else b'') + bytes((0xE6, mask, 0x40 + er * 8 + 7)))
        flip = bytes((0x78 + er, 0xEE, mask, 0x40 + er * 8 + 7))          # LD A,ear; XOR mask; LD ear,A
    else:
        for b in code:
            if isinstance(b, int) and 0xA0 <= b <= 0xA5 and (b - 0xA0) != cr:
                items.append(bytes((0x06 + (b - 0xA0) * 8, 0x40)))          # LD r,0x40 : the mask register of AND r
    order = list(range(len(names)))
    items.append(('label', 'loop'))
    for k, i in enumerate(order):
        items += [('label', 'try%d' % k), bytes((0x06 + cr * 8, scn['init'], 0xCD)) + _word(blocks_at[i]), bytes((0x78 + cr, 0xB7)), ('jr', 0x20, 'got%d' % k),
                  # time-out (counter ran to zero): not a sample; give up after 3000 of them (the gap before the pulses is real time)
                  bytes((0x3A,)) + _word(tocnt) + bytes((0xD6, 0x01, 0x32)) + _word(tocnt) + bytes((0x3A,)) + _word(tocnt + 1) + bytes((0xDE, 0x00, 0x32)) + _word(tocnt + 1),
                  ('jp', 0xDA, 'done'), ('jr', 0x18, 'try%d' % k),
                  ('label', 'got%d' % k), bytes((0xDD, 0x70 + cr, 0x00, 0xDD, 0x23)) + flip]
    items += [bytes((0x3A,)) + _word(cnt) + bytes((0x3D, 0x32)) + _word(cnt), ('jp', 0xC2, 'loop'), ('label', 'done'), ('jp', 0xC3, 'done')]
    prog, labels = _assemble(items, base)
    done = labels['done']
    assert len(prog) <= 0x100, len(prog)
    image = prog + bytes(0x100 - len(prog)) + samples[0] + bytes(0x20) + (samples[1] if len(samples) > 1 else bytes(0x60))
    image += bytes(0x200 - len(image))
    image += bytes(len(names) * scn['nsamples'] + 8)
    if base + len(image) >= 0x10000:
        raise tapeload.ToolError('layout does not fit')
    binf = os.path.join(wd, 'prof.bin')
    with open(binf, 'wb') as f:
        f.write(image)
    tape1 = os.path.join(wd, 'prof.' + scn['tape_fmt'])
    tapeload.run_tool(tapeload.bin2tap, ['--org', str(base), '--start', str(base), '--stack', str(0x7F00), binf, tape1])
    if scn['tape2'] == 'tzx':
        out = bytearray(b'ZXTape!\x1a\x01\x14')
        for pl in scn['pulses']:
            if pl[0] == 'tone':
                out += bytes((0x12,)) + _word(pl[1]) + _word(pl[2])
            else:
                out += bytes((0x13, len(pl[1]))) + b''.join(_word(x) for x in pl[1])
        # the tracer only plays pulses that lead up to a data block, so the tape ends with a short pure-data block
        tail = random.Random(scn['order_seed']).randbytes(24)
        out += bytes((0x14,)) + _word(855) + _word(1710) + bytes((8,)) + _word(scn['pause_ms']) + bytes((len(tail), 0, 0)) + tail
        tape2 = os.path.join(wd, 'pulses.tzx')
    else:
        out = bytearray(b'PZXT' + _dword(2) + bytes((1, 0))) + b'PAUS' + _dword(4) + _dword(300 * 3500)
        body = bytearray()
        for pl in scn['pulses']:
            if pl[0] == 'tone':
                body += _word(0x8000 | pl[2]) + _word(pl[1])
            else:
                for x in pl[1]:
                    body += _word(x)
        tail = random.Random(scn['order_seed']).randbytes(24)
        dbody = _dword(len(tail) * 8) + _word(945) + bytes((2, 2)) + _word(855) * 2 + _word(1710) * 2 + tail
        out += b'PULS' + _dword(len(body)) + body + b'DATA' + _dword(len(dbody)) + dbody + b'PAUS' + _dword(4) + _dword(scn['pause_ms'] * 3500)
        tape2 = os.path.join(wd, 'pulses.pzx')
    with open(tape2, 'wb') as f:
        f.write(bytes(out))
    scn['extra_args'] = [tape1]
    n_buf = len(names) * scn['nsamples']
    # the buffer holds timing measurements, not bytes loaded from data blocks: it is compared in the strict group
    # (whole RAM) but is no 'loaded data' for the weak group (fast load / contention may shift the measurements)
    return tape2, done, '48', [], set()
