"""Scratch build of skoolkit from the current working tree of the repository.

Copies <repo>/skoolkit to a fresh directory outside /repo and /verif, compiles
<repo>/c/csimulator.c twice (plain and -DCONTENTION) into it, puts the scratch
directory first on sys.path and asserts that the freshly built classes are the
ones `skoolkit` exposes.  The directory is removed at exit of the process that
created it.
"""
import atexit
import os
import shutil
import signal
import subprocess
import sys
import sysconfig
import tempfile

REPO = os.environ.get('VERIF_REPO', '/repo')

class BuildError(Exception):
    pass

_scratch = None
_owner_pid = None

def _cleanup():
    global _scratch
    if _scratch and os.getpid() == _owner_pid:
        shutil.rmtree(_scratch, ignore_errors=True)
        _scratch = None

def _on_term(signum, frame):
    _cleanup()
    os._exit(2)

def scratch_base():
    for base in ('/dev/shm', tempfile.gettempdir()):
        if os.path.isdir(base) and os.access(base, os.W_OK):
            return base
    return None

def build(repo=None):
    """Build and activate; returns the scratch directory."""
    global _scratch, _owner_pid
    if _scratch:
        return _scratch
    repo = repo or REPO
    d = tempfile.mkdtemp(prefix='zxsim-build-', dir=scratch_base())
    _scratch = d
    _owner_pid = os.getpid()
    atexit.register(_cleanup)
    for s in (signal.SIGTERM, signal.SIGINT, signal.SIGHUP):
        try:
            signal.signal(s, _on_term)
        except Exception:
            pass
    pkg = os.path.join(d, 'skoolkit')
    shutil.copytree(os.path.join(repo, 'skoolkit'), pkg,
                    ignore=shutil.ignore_patterns('*.so', '__pycache__', '*.pyc'))
    src = os.path.join(repo, 'c', 'csimulator.c')
    inc = sysconfig.get_paths()['include']
    suffix = sysconfig.get_config_var('EXT_SUFFIX')
    procs = []
    for name, extra in (('csimulator', []), ('ccmiosimulator', ['-DCONTENTION'])):
        out = os.path.join(pkg, name + suffix)
        cmd = ['gcc', '-O2', '-shared', '-fPIC', '-fno-strict-aliasing', '-I', inc] + extra + [src, '-o', out]
        procs.append((name, subprocess.Popen(cmd, stdout=subprocess.PIPE, stderr=subprocess.STDOUT)))
    for name, p in procs:
        out, _ = p.communicate()
        if p.returncode != 0:
            raise BuildError('gcc failed for %s:\n%s' % (name, out.decode(errors='replace')[-4000:]))
    # Remove any already-imported skoolkit and put the scratch copy first.
    for m in [m for m in sys.modules if m == 'skoolkit' or m.startswith('skoolkit.')]:
        del sys.modules[m]
    sys.path.insert(0, d)
    import skoolkit
    if not os.path.realpath(skoolkit.__file__).startswith(os.path.realpath(d)):
        raise BuildError('skoolkit imported from %s, not from scratch build %s' % (skoolkit.__file__, d))
    if skoolkit.CSimulator is None or skoolkit.CCMIOSimulator is None:
        raise BuildError('freshly built C modules failed to import')
    import skoolkit.csimulator, skoolkit.ccmiosimulator
    for mod in (skoolkit.csimulator, skoolkit.ccmiosimulator):
        if not os.path.realpath(mod.__file__).startswith(os.path.realpath(d)):
            raise BuildError('C module imported from %s' % mod.__file__)
    return d

def workdir(prefix='zxsim-run-'):
    """Per-run scratch directory on tmpfs; caller removes it."""
    return tempfile.mkdtemp(prefix=prefix, dir=scratch_base())
