"""C10 - saving a snapshot mid-run and resuming from it is transparent.

Crash-and-restart simulation: the system is trace.py (real main(), argument
parsing, from_snapshot, Tracer, Python loop / C trace(), get_state,
write_snapshot, SZX/Z80 writers and readers).  A reference execution runs N
operations uninterrupted; the crash execution runs the same program as a chain
of legs, each started from the snapshot file the previous leg wrote (the only
thing that survives a crash).  Final simulator states are compared.
"""
import contextlib
import hashlib
import io
import json
import os
import shutil

from . import build, gen_prog, prng
from .harness import new_result, fail, bump

PROP = 'C10'
RUNS = {'quick': 2600, 'thorough': 120000}
BUDGET_S = {'quick': 150, 'thorough': 2400}
CHUNK = 24

_captured = []

def init():
    global trace, snapshot_mod
    from skoolkit import trace, snapshot as snapshot_mod
    import skoolkit.trace as _t
    orig = _t.write_snapshot
    def capture(fname, ram, registers, state, machine='48K'):
        _captured.append((fname, ram, list(registers), list(state), machine))
        return orig(fname, ram, registers, state, machine)
    _t.write_snapshot = capture
    # stdout must be reproducible: the only real clock in the checked path feeds --stats only.
    class _Clock:
        t = 0.0
        @classmethod
        def time(cls):
            cls.t += 1.0
            return cls.t
    _t.time = _Clock

CLASSES = ('after_ei', 'in_halt', 'after_prefix', 'in_block', 'before_frame_cross', 'after_frame_cross',
           'in_int_window', 'after_out', 'uniform', 'first', 'last')

def gen(rng, tier, index):
    machine = rng.choice(('48K', '48K', '128K', '128K', '+2'))
    interrupts = rng.random() < 0.9
    cmio = rng.random() < 0.4
    prog = gen_prog.gen_program(rng, machine, style='io' if cmio and rng.random() < 0.4 else None, interrupts=interrupts)
    n = prng.log_uniform(rng, 2, 1500 if tier == 'quick' else 4096)
    if cmio and rng.random() < 0.5:
        # under --cmio the uninterrupted run's clock is absolute while a resumed run starts again below one frame:
        # start in a later frame, inside the display area, so that contended accesses follow the split
        frame = 69888 if machine == '48K' else 70908
        prog['state']['tstates'] = frame * rng.choice((1, 2, 3, rng.randrange(1, 200))) + rng.randrange(14000, 57000)
    if rng.random() < 0.5:
        n = min(n, rng.randrange(2, 300))
    if prog['state']['tstates'] >= (1 << 24) - 200000 and rng.random() < 0.5:
        # T_MAGNITUDE: start just below 2^24 so the running clock crosses it
        prog['state']['tstates'] = (1 << 24) - rng.randrange(1, 4000)
    ncrash = rng.choice((1, 1, 1, 2, 2, 3, 4))
    spec = []
    for _ in range(ncrash):
        cls = rng.choice(CLASSES) if rng.random() < 0.6 else 'uniform'
        spec.append({'class': cls, 'k': rng.randrange(1 << 20), 'fmt': rng.choice(('szx', 'z80'))})
    start_fmt = rng.choice(('szx', 'z80', 'szx', 'z80', 'bin', 'sna')) if machine == '48K' else rng.choice(('szx', 'z80'))
    scn = {
        'kind': 'crash-resume', 'machine': machine, 'prog': prog, 'start_fmt': start_fmt,
        'python': rng.random() < 0.4, 'cmio': cmio, 'interrupts': interrupts,
        'N': n, 'crash_spec': spec, 'mode': 'stop' if rng.random() < 0.2 else 'ops',
    }
    if index % 16 == 7:
        # "for every split point": one short run, resumed from a snapshot taken after each of its instructions in turn
        scn['N'] = rng.randrange(3, 36 if tier == 'quick' else 120)
        scn['mode'] = 'ops'
        scn['all_splits'] = rng.choice(('szx', 'z80', 'alt'))
        del scn['crash_spec']
    return scn

# ---------------------------------------------------------------------------

def _reg_specs(regs):
    out = []
    for k, v in regs.items():
        out.append('%s=%d' % (k, v))
    return out

def _state_specs(state, with_t=True):
    out = []
    for k, v in state.items():
        if k == 'ay':
            out.extend('ay[%d]=%d' % (i, x) for i, x in enumerate(v))
        elif k == 'tstates':
            if with_t:
                out.append('tstates=%d' % v)
        else:
            out.append('%s=%d' % (k, v))
    return out

def _pair(regs, hi, lo):
    return regs.get(hi, 0) * 256 + regs.get(lo, 0)

def write_start(scn, wd):
    """Materialise the start state as a file; -> (filename, extra args for the first leg)."""
    prog = scn['prog']
    machine, ram = gen_prog.materialise(prog['mem'])
    regs = dict(prog['regs'])
    state = dict(prog['state'])
    frame = 69888 if machine == '48K' else 70908
    fmt = scn['start_fmt']
    extra = []
    t0 = state['tstates']
    sregs = {k: v for k, v in regs.items()}
    snap_regs = ['a=%d' % regs['A'], 'f=%d' % regs['F'], 'bc=%d' % _pair(regs, 'B', 'C'), 'de=%d' % _pair(regs, 'D', 'E'),
                 'hl=%d' % _pair(regs, 'H', 'L'), 'ix=%d' % _pair(regs, 'IXh', 'IXl'), 'iy=%d' % _pair(regs, 'IYh', 'IYl'),
                 'sp=%d' % regs['SP'], 'i=%d' % regs['I'], 'r=%d' % regs['R'], '^a=%d' % regs['^A'], '^f=%d' % regs['^F'],
                 '^bc=%d' % _pair(regs, '^B', '^C'), '^de=%d' % _pair(regs, '^D', '^E'), '^hl=%d' % _pair(regs, '^H', '^L'),
                 'pc=%d' % regs['PC']]
    if fmt in ('szx', 'z80'):
        fname = os.path.join(wd, 'start.' + fmt)
        st = dict(state)
        st['tstates'] = t0 % frame
        data = [list(b) for b in ram] if machine != '48K' else list(ram)
        snapshot_mod.write_snapshot(fname, data, snap_regs, _state_specs(st), machine)
        if t0 >= frame:
            extra += ['--state', 'tstates=%d' % t0]
        return fname, extra
    if fmt == 'bin':
        fname = os.path.join(wd, 'start.bin')
        with open(fname, 'wb') as f:
            f.write(bytes(ram))
        extra += ['--org', '16384', '--start', str(regs['PC'])]
        for spec in snap_regs:
            if not spec.startswith('pc='):
                extra += ['--reg', spec]
        for spec in _state_specs(state):
            extra += ['--state', spec]
        return fname, extra
    if fmt == 'sna':
        # 48K SNA: PC is on the stack (the harness writes the file; skoolkit only reads SNA)
        sp = regs['SP']
        ram = bytearray(ram)
        sp2 = (sp - 2) & 0xFFFF
        for a, v in ((sp2, regs['PC'] & 0xFF), ((sp2 + 1) & 0xFFFF, regs['PC'] >> 8)):
            if a >= 0x4000:
                ram[a - 0x4000] = v
        if sp2 < 0x4000 or sp2 == 0xFFFF:
            # the SNA reader takes PC from tail[sp - 16384]; keep to stacks it can represent
            sp2 = 0xFF00
            ram[sp2 - 0x4000] = regs['PC'] & 0xFF
            ram[sp2 + 1 - 0x4000] = regs['PC'] >> 8
        hdr = bytearray(27)
        hdr[0] = regs['I']
        hdr[1], hdr[2] = regs['^L'], regs['^H']
        hdr[3], hdr[4] = regs['^E'], regs['^D']
        hdr[5], hdr[6] = regs['^C'], regs['^B']
        hdr[7], hdr[8] = regs['^F'], regs['^A']
        hdr[9], hdr[10] = regs['L'], regs['H']
        hdr[11], hdr[12] = regs['E'], regs['D']
        hdr[13], hdr[14] = regs['C'], regs['B']
        hdr[15], hdr[16] = regs['IYl'], regs['IYh']
        hdr[17], hdr[18] = regs['IXl'], regs['IXh']
        hdr[19] = 4 if state['iff'] else 0
        hdr[20] = regs['R']
        hdr[21], hdr[22] = regs['F'], regs['A']
        hdr[23], hdr[24] = sp2 & 0xFF, sp2 >> 8
        hdr[25] = state['im']
        hdr[26] = state['border']
        fname = os.path.join(wd, 'start.sna')
        with open(fname, 'wb') as f:
            f.write(bytes(hdr) + bytes(ram))
        extra += ['--state', 'tstates=%d' % t0, '--state', 'fe=%d' % state['fe']]
        return fname, extra
    raise ValueError(fmt)

class ToolError(Exception):
    pass

def run_trace(args):
    """Run trace.main in-process; -> (stdout, captured write_snapshot calls)."""
    del _captured[:]
    out = io.StringIO()
    try:
        with contextlib.redirect_stdout(out), contextlib.redirect_stderr(io.StringIO()):
            trace.main(args)
    except SystemExit as e:
        raise ToolError('trace.main%r exited: %s' % (args, e))
    except Exception as e:
        raise ToolError('trace.main%r raised %s: %s' % (args, type(e).__name__, e))
    return out.getvalue(), list(_captured)

def engine_args(scn):
    a = []
    if scn['python']:
        a.append('--python')
    if scn['cmio']:
        a.append('--cmio')
    if not scn['interrupts']:
        a.append('-n')
    return a

def extract(cap, frame):
    fname, ram, registers, state, machine = cap
    d = {}
    for spec in registers:
        k, _, v = spec.partition('=')
        d['reg.' + k] = int(v)
    for spec in state:
        k, _, v = spec.partition('=')
        d['hw.' + k] = int(v)
    if 'hw.tstates' in d:
        d['hw.frame_pos'] = d.pop('hw.tstates') % frame
    if len(ram) == 8:
        for i, b in enumerate(ram):
            d['ram.bank%d' % i] = bytes(b)
    else:
        d['ram'] = bytes(ram)
    d['machine'] = machine
    return d

def diff_states(a, b, skip=()):
    """-> list of (field, a, b) in a fixed order."""
    out = []
    for k in sorted(set(a) | set(b)):
        if k in skip:
            continue
        va, vb = a.get(k), b.get(k)
        if va != vb:
            if isinstance(va, bytes) and isinstance(vb, bytes):
                idx = next((i for i in range(min(len(va), len(vb))) if va[i] != vb[i]), -1)
                out.append((k, '[%d]=%d' % (idx, va[idx] if idx >= 0 else -1), '[%d]=%d' % (idx, vb[idx] if idx >= 0 else -1)))
            else:
                out.append((k, va, vb))
    return out

def classify(lines, frame, int_active):
    """lines: list of (t, pc, mnemonic) per operation (1-based op k = lines[k-1]).
    -> {class: [n1 candidates]} where n1 = number of operations before the crash."""
    n = len(lines)
    cls = {c: [] for c in CLASSES}
    for k in range(1, n):       # boundary after op k, 1 <= k <= n-1
        t, pc, m = lines[k - 1]
        t_next, pc_next, m_next = lines[k]
        if m == 'EI':
            cls['after_ei'].append(k)
        if m == 'HALT':
            cls['in_halt'].append(k)
        if m.startswith('DEFB'):
            cls['after_prefix'].append(k)
        if pc_next == pc and m_next == m and m[:2] in ('LD', 'CP', 'IN', 'OT') and m.endswith('R'):
            cls['in_block'].append(k)
        if t_next // frame > t // frame:
            cls['after_frame_cross'].append(k)
            if k > 1:
                cls['before_frame_cross'].append(k - 1)
        if t_next % frame < int_active:
            cls['in_int_window'].append(k)
        if m.startswith('OUT') or m.startswith('OT'):
            cls['after_out'].append(k)
    if n > 1:
        cls['first'].append(1)
        cls['last'].append(n - 1)
    return cls

TRACE_LINE = 'TraceLineDecimal=%{t} {pc} {i}'

def parse_trace(stdout):
    lines = []
    for ln in stdout.splitlines():
        if ln.startswith('%'):
            t, pc, m = ln[1:].split(' ', 2)
            lines.append((int(t), int(pc), m.strip()))
    return lines

def resolve_crashes(scn, lines, frame, int_active):
    n = scn['N']
    n = min(n, len(lines))
    cls = classify(lines[:n], frame, int_active)
    out = []
    for c in scn['crash_spec']:
        cands = cls.get(c['class']) or []
        if cands:
            at = cands[c['k'] % len(cands)]
            cname = c['class']
        else:
            at = 1 + c['k'] % (n - 1)
            cname = 'uniform'
        # was the CPU halted (HALT being re-executed) when the snapshot was taken?
        halted = lines[at - 1][2] == 'HALT' and at < len(lines) and lines[at][2] == 'HALT' and lines[at][1] == lines[at - 1][1]
        out.append({'at': at, 'fmt': c['fmt'], 'class': cname, 'halted': bool(halted)})
    # distinct, sorted
    seen = {}
    for c in sorted(out, key=lambda c: c['at']):
        seen.setdefault(c['at'], c)
    return list(seen.values())

def run(scn):
    res = new_result()
    if scn.get('all_splits'):
        return _run_all_splits(scn, res)
    wd = build.workdir()
    try:
        return _run(scn, res, wd)
    finally:
        shutil.rmtree(wd, ignore_errors=True)

def _run_all_splits(scn, res):
    n = scn['N']
    h = hashlib.sha256()
    k = 1
    while k < n:
        fmt = scn['all_splits'] if scn['all_splits'] != 'alt' else ('szx', 'z80')[k % 2]
        sub = json.loads(json.dumps(scn))
        del sub['all_splits']
        sub['N'] = n
        sub['crashes'] = [{'at': k, 'class': 'uniform', 'fmt': fmt}]
        wd = build.workdir()
        try:
            r = _run(sub, res, wd)
        finally:
            shutil.rmtree(wd, ignore_errors=True)
        n = min(n, sub['N'])
        if not r.get('ok', True):
            # the failing split is a scenario of its own: that is what gets shrunk and replayed
            scn.clear()
            scn.update(sub)
            return r
        if r.get('discard'):
            if k == 1:
                return r
            r.pop('discard')
            break
        h.update((r.get('digest') or '').encode())
        bump(res, 'split_points_swept')
        k += 1
    res['digest'] = h.hexdigest()
    return res

def _first_visit(lines, idx):
    """True if the PC reached after operation idx (= lines[idx].pc) was not a PC after any earlier op."""
    target = lines[idx][1]
    return all(lines[j][1] != target for j in range(1, idx))

def _run(scn, res, wd):
    machine = scn['machine']
    frame = 69888 if machine == '48K' else 70908
    int_active = 32 if machine == '48K' else 36
    eng = engine_args(scn)
    start, extra = write_start(scn, wd)
    n = scn['N']
    h = hashlib.sha256()
    try:
        # pass 0: instrumented run (classifies the instruction boundaries)
        if 'crashes' not in scn or scn.get('mode') == 'stop' or any('halted' not in c for c in scn['crashes']):
            out, _ = run_trace(['-v', '-D', '-I', TRACE_LINE, '-m', str(n + 1)] + eng + extra + [start])
            lines = parse_trace(out)
            if len(lines) < 3:
                res['discard'] = 'program too short'
                return res
            if 'crashes' not in scn:
                if len(lines) < n + 1:
                    n = scn['N'] = len(lines) - 1
                scn['crashes'] = resolve_crashes(scn, lines, frame, int_active)
                scn.pop('crash_spec', None)
            for c in scn['crashes']:
                if 'halted' not in c:
                    at = c['at']
                    c['halted'] = bool(0 < at < len(lines) and lines[at - 1][2] == 'HALT' and lines[at][2] == 'HALT' and lines[at][1] == lines[at - 1][1])
        crashes = [c for c in scn['crashes'] if 0 < c['at'] < n]
        if not crashes:
            res['discard'] = 'no crash point inside the run'
            return res
        mode = scn.get('mode', 'ops')
        if mode == 'stop':
            # legs end at addresses; needs first-visit addresses in increasing order
            pts = [c['at'] for c in crashes] + [n]
            ok = all(_first_visit(lines, p) for p in pts) and len(set(lines[p][1] for p in pts)) == len(pts)
            # also the start PC of a leg must not equal a later stop that was "first visited" only because
            # index 0 is excluded - handled by _first_visit starting at j=1
            if not ok:
                mode = 'ops'
                bump(res, 'stop_mode_fallback_to_ops')
        def leg_args(count_or_idx):
            if mode == 'stop':
                return ['--stop', str(lines[count_or_idx][1])]
            return None
        # reference: uninterrupted
        ref_file = os.path.join(wd, 'ref.szx')
        if mode == 'stop':
            a = ['--stop', str(lines[n][1])]
        else:
            a = ['-m', str(n)]
        out, caps = run_trace(a + eng + extra + [start, ref_file])
        ref = extract(caps[-1], frame)
        h.update(out.replace(wd, '<wd>').encode())

        def chain(fmts, memptr0_after=()):
            cur = start
            cur_extra = list(extra)
            done = 0
            final = None
            pts = [c['at'] for c in crashes] + [n]
            for i, p in enumerate(pts):
                last = i == len(pts) - 1
                fmt = 'szx' if last else fmts[i]
                outf = os.path.join(wd, 'leg%d.%s' % (i, fmt))
                if mode == 'stop':
                    a = ['--stop', str(lines[p][1])]
                else:
                    a = ['-m', str(p - done)]
                o, caps = run_trace(a + eng + cur_extra + [cur, outf])
                h.update(o.replace(wd, '<wd>').encode())
                final = caps[-1]
                cur = outf
                cur_extra = []
                if i in memptr0_after:
                    cur_extra = ['--reg', 'MEMPTR=0']
                if scn.get('neutralise_halted') and not last and crashes[i].get('halted'):
                    # counterfactual for the known finding 'halted state is not saved': tell the resumed leg
                    cur_extra = cur_extra + ['--state', 'halted=1']
                done = p
            return extract(final, frame)

        fmts = [c['fmt'] for c in crashes]
        all_szx = all(f == 'szx' for f in fmts)
        for c in crashes:
            bump(res, 'fault:CRASH(%s)' % c['fmt'])
            bump(res, 'probe:crash_' + c['class'])
            res['sigs'].append('%s|%s|%s|%s%s|%s' % (c['class'], c['fmt'], machine, 'py' if scn['python'] else 'c', '+cmio' if scn['cmio'] else '', mode))
        bump(res, 'legs', len(crashes) + 2)
        bump(res, 'sim_tstates', max(0, (ref.get('hw.frame_pos', 0))) if False else 0)
        if scn['prog']['state']['tstates'] + 4 * n >= (1 << 24):
            bump(res, 'fault:T_MAGNITUDE')

        # 1. SZX transparency against the single uninterrupted run (always checked first)
        szx_chain = chain(['szx'] * len(crashes))
        d = diff_states(ref, szx_chain)
        if d:
            fld = d[0][0]
            return fail(res, 'C10/szx/%s' % fld,
                        'SZX chain differs from uninterrupted run: machine=%s engine=%s crashes=%s N=%d mode=%s\n%s' % (
                            machine, eng, crashes, n, mode, '\n'.join('  %s: uninterrupted=%s resumed=%s' % x for x in d[:12])))
        # 2. the drawn format mix
        if not all_szx:
            z80_legs = [i for i, f in enumerate(fmts) if f == 'z80']
            got = chain(fmts)
            if scn['cmio']:
                # reference for Z80 legs under --cmio: uninterrupted execution with MEMPTR := 0 at those crash points
                want = chain(['szx'] * len(crashes), memptr0_after=z80_legs)
            else:
                want = ref
            skip = ('reg.MEMPTR', 'hw.fe')
            d = diff_states(want, got, skip)
            if d:
                fld = d[0][0]
                return fail(res, 'C10/z80/%s' % fld,
                            'Z80 chain differs: machine=%s engine=%s crashes=%s N=%d mode=%s\n%s' % (
                                machine, eng, crashes, n, mode, '\n'.join('  %s: expected=%s resumed=%s' % x for x in d[:12])))
        hh = hashlib.sha256()
        for k in sorted(ref):
            hh.update(k.encode()); hh.update(repr(ref[k]).encode() if not isinstance(ref[k], bytes) else ref[k])
        h.update(hh.digest())
        res['digest'] = h.hexdigest()
        bump(res, 'operations', n)
        return res
    except ToolError as e:
        return fail(res, 'C10/tool-error', str(e))

def sample(scn, res):
    return {'machine': scn['machine'], 'engine': engine_args(scn), 'N': scn['N'], 'crashes': scn.get('crashes'),
            'start_fmt': scn['start_fmt'], 'style': scn['prog']['style'], 'mode': scn.get('mode'),
            'T0': scn['prog']['state']['tstates'], 'regs': scn['prog']['regs']}

def shrink_candidates(scn):
    cr = scn.get('crashes') or []
    # fewer crash points
    if len(cr) > 1:
        for i in range(len(cr)):
            c = json.loads(json.dumps(scn)); del c['crashes'][i]; yield c
    # shorter run
    n = scn['N']
    last = max([c['at'] for c in cr] or [1])
    for n2 in (last + 1, last + 2, last + 4, (n + last) // 2, n - 1):
        if last < n2 < n:
            c = json.loads(json.dumps(scn)); c['N'] = n2; yield c
    # earlier crash
    if len(cr) == 1 and cr[0]['at'] > 1:
        for a in (1, cr[0]['at'] // 2, cr[0]['at'] - 1):
            if 0 < a < cr[0]['at']:
                c = json.loads(json.dumps(scn)); c['crashes'][0]['at'] = a; yield c
    if scn.get('mode') == 'stop':
        c = json.loads(json.dumps(scn)); c['mode'] = 'ops'; yield c
    if scn['python']:
        c = json.loads(json.dumps(scn)); c['python'] = False; yield c
    if scn['cmio']:
        c = json.loads(json.dumps(scn)); c['cmio'] = False; yield c
    if scn['start_fmt'] != 'szx':
        c = json.loads(json.dumps(scn)); c['start_fmt'] = 'szx'; yield c
    frame = 69888 if scn['machine'] == '48K' else 70908
    t0 = scn['prog']['state']['tstates']
    if t0 >= frame:
        c = json.loads(json.dumps(scn)); c['prog']['state']['tstates'] = t0 % frame; yield c

def describe():
    return {
        'rule': ('One evaluation = one scenario: a generated program/start state run by trace.main once uninterrupted and once (or twice) '
                 'as a chain of legs through snapshot files, final simulator states compared. A case is non-trivial when the crash point '
                 'lies strictly inside the run; distinct cases are counted as distinct tuples (instruction-boundary class at the crash, '
                 'snapshot format, machine, engine, leg mode).'),
        'assumptions': [
            'trace.main is driven in-process with stdout captured; the state compared is what trace.py hands to write_snapshot (ram, registers, state), T modulo the frame',
            'for Z80 legs under --cmio the reference is the SZX chain with MEMPTR set to 0 at the same crash points (statement: "Z80 exactly except MEMPTR"); fe is not compared for Z80 legs',
            'reference and crash executions use the same engine (cross-engine agreement is C06, not C10)',
        ],
        'components': {
            'real': ['skoolkit.trace.main/run/Tracer', 'simutils.from_snapshot/get_state', 'snapshot.write_snapshot, SZX/Z80 writers+readers, SNA reader',
                     'Simulator, CMIOSimulator (Python)', 'CSimulator, CCMIOSimulator (rebuilt from c/csimulator.c)'],
            'stubbed': ['time.time in trace.py (feeds --stats only)'],
            'harness': ['program/start-state generator', 'SNA start-file writer', 'boundary classifier over trace -v output'],
        },
        'probes': ['crash_after_ei', 'crash_in_halt', 'crash_after_prefix', 'crash_in_block', 'crash_before_frame_cross',
                   'crash_after_frame_cross', 'crash_in_int_window', 'crash_after_out'],
        'design_ref': 'DESIGN.md section 5, C10',
    }

def _neutralise_halted(scn):
    if not scn.get('cmio') or not any(c.get('halted') for c in scn.get('crashes') or []):
        return None
    scn['neutralise_halted'] = True
    return scn

neutralisers = {'halted-state-not-saved-cmio': _neutralise_halted}
