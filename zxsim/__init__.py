"""zxsim: deterministic simulation harness for skoolkit (see /verif/DESIGN.md)."""
