"""C13 - simulated LOAD results do not depend on speed-up options or simulator choice.

The simulated LOAD is a discrete-event simulation with clock jumps (tape-sampling-loop accelerators, DEC A
loop accelerator, ROM fast load), a stallable peer (tape pause between blocks), a hidden order (the accelerator
set) and two engines.  One tape is loaded under a lattice of configurations; the most literal execution is the
reference.  Strict group (accelerator, accelerate-dec-a, pause, python, set order): whole final state identical
including R and T.  Weak group (fast-load, cmio): loaded bytes, PC, SP identical.
"""
import hashlib
import json
import os
import shutil

from . import build, prng, tapeload, p12, gen_tzx
from .harness import new_result, fail, bump

PROP = 'C13'
RUNS = {'quick': 220, 'thorough': 9000}
BUDGET_S = {'quick': 200, 'thorough': 2700}
CHUNK = 2

def init():
    tapeload.init()
    gen_tzx.init()

def gen(rng, tier, index):
    if index % 12 == 5:
        return gen_tzx.gen_landing(rng, tier, index)
    if index % 12 == 11:
        return gen_tzx.gen_repatch(rng, tier, index)
    if index % 12 == 8:
        return gen_tzx.gen_late(rng, tier, index)
    if index % 3 == 2:
        return gen_tzx.gen_custom(rng, tier, index)
    if index % 3 == 1:
        return gen_tzx.gen_profiler(rng, tier, index)
    # a bin2tap tape (C12's generator), sized for real-time loading
    while True:
        scn = p12.gen(rng, 'quick', index)
        if scn['size'] <= (6000 if tier == 'quick' else 45000) and not (scn['kind'] == '128' and tier == 'quick' and scn['size'] > 20000):
            break
    scn['source'] = 'bin2tap'
    if index % 12 == 0 and scn['kind'] != '128':
        # a pilotless decoy block somewhere on the tape (first, between blocks, or last)
        scn['tape_fmt'] = 'tap'
        # (never first on the tape: a pilotless block at the very start of the tape is fast-loaded by tap2sna although no
        # real load could lock on to it - known finding 'fast-load-pilotless-block', kept as a stored reproducer)
        scn['decoy'] = {'pos': rng.choice((1, 2, 3, 4, 9)), 'one_pulse': rng.choice((0, 0, 2168, 667, rng.randrange(300, 4000))),
                        'len': rng.randrange(1, 300), 'addr': rng.randrange(16384, 65536), 'pause_ms': rng.choice((0, 100, 1000))}
    size = scn['size']
    scn.pop('cfg')
    scn['base'] = {'polarity': rng.choice((0, 0, 1)), 'first-edge': rng.choice((0, 0, 1, 1000, prng.log_uniform(rng, 1, 1000000))),
                   'finish-tape': rng.choice((0, 0, 1))}
    scn['variants'] = gen_variants(rng, size, tier)
    if scn.get('decoy'):
        # the decoy plays while BASIC is busy (pause=0) or waits for the next LOAD (pause=1): what the loader hears of
        # it differs, which is the documented purpose of the option; only the delivery is compared for pause=0
        for v in scn['variants']:
            if not v['pause']:
                v['group'] = 'weak'
    return scn

def gen_variants(rng, size, tier, names=('rom',)):
    """The configuration lattice, sampled: each variant is one execution of the same tape."""
    v = []
    py_lit = size <= (160 if tier == 'quick' else 400)
    py_acc = size <= (1500 if tier == 'quick' else 6000)
    def strict(**kw):
        d = {'accelerator': 'none', 'accelerate-dec-a': 0, 'pause': 1, 'python': 0, 'fast-load': 0, 'cmio': 0, 'group': 'strict'}
        d.update(kw)
        return d
    pool = []
    for acc in ('auto', 'none') + tuple(names):
        for da in (0, 1, 2, 3):
            for pause in (0, 1):
                pool.append(strict(accelerator=acc, **{'accelerate-dec-a': da, 'pause': pause}))
    rng.shuffle(pool)
    v.extend(pool[:rng.choice((2, 3, 4))])
    v.append(strict(accelerator='auto', **{'accelerate-dec-a': rng.choice((1, 3)), 'order': rng.getrandbits(32)}))
    if py_acc:
        v.append(strict(accelerator=rng.choice(('auto',) + tuple(names)), python=1, **{'accelerate-dec-a': rng.choice((1, 3)), 'pause': rng.choice((0, 1))}))
        if rng.random() < 0.5:
            v.append(strict(accelerator='auto', python=1, **{'accelerate-dec-a': rng.choice((0, 1, 2, 3)), 'order': rng.getrandbits(32)}))
    if py_lit:
        v.append(strict(python=1))
        if rng.random() < 0.5:
            v.append(strict(python=1, accelerator='none', **{'accelerate-dec-a': rng.choice((1, 2, 3))}))
    # weak group
    v.append({'accelerator': 'auto', 'accelerate-dec-a': 1, 'pause': 1, 'python': 0, 'fast-load': 1, 'cmio': 0, 'group': 'weak'})
    v.append({'accelerator': 'none', 'accelerate-dec-a': 0, 'pause': rng.choice((0, 1)), 'python': 0, 'fast-load': 0, 'cmio': 1, 'group': 'weak'})
    if py_acc and rng.random() < 0.5:
        v.append({'accelerator': 'auto', 'accelerate-dec-a': 1, 'pause': 1, 'python': 1, 'fast-load': 1, 'cmio': 0, 'group': 'weak'})
    if py_lit and rng.random() < 0.5:
        v.append({'accelerator': 'none', 'accelerate-dec-a': 0, 'pause': 1, 'python': 1, 'fast-load': rng.choice((0, 1)), 'cmio': 1, 'group': 'weak'})
    return v

def run(scn):
    res = new_result()
    wd = build.workdir()
    try:
        return _run(scn, res, wd)
    except tapeload.Hang as e:
        res['discard'] = 'HANG: simulated LOAD on the C engine did not return and was killed'
        res['detail'] = str(e)
        return res
    finally:
        shutil.rmtree(wd, ignore_errors=True)

def final_state(st, snap, machine128):
    d = {}
    regs = st['regs']
    from .lockstep import REGNAMES
    for i, v in enumerate(regs):
        if i in (13, 29):
            continue
        d['reg.' + REGNAMES[i]] = v
    for k, v in st['tracer'].items():
        d['hw.' + k] = v
    if machine128:
        ram = snap.ram(-1)
        for b in range(8):
            d['ram.bank%d' % b] = bytes(ram[b * 16384:(b + 1) * 16384])
    else:
        d['ram'] = bytes(snap.ram())
    return d

def _diff(a, b, keys=None):
    out = []
    for k in sorted(a):
        if keys is not None and k not in keys:
            continue
        if a[k] != b.get(k):
            if isinstance(a[k], bytes):
                j = next(i for i in range(len(a[k])) if a[k][i] != b[k][i])
                out.append((k, '[%d]=%d' % (j, a[k][j]), '[%d]=%d' % (j, b[k][j])))
            else:
                out.append((k, a[k], b.get(k)))
    return out

def _cfgstr(v):
    return ' '.join('%s=%s' % (k, v[k]) for k in ('accelerator', 'accelerate-dec-a', 'pause', 'python', 'fast-load', 'cmio') if k in v) + (' order=%s' % v['order'] if 'order' in v else '')

def _landing(scn, res, wd):
    """Choose the lead-in pulse length so that its closing edge lands on an observed sampling / fast-forward instant."""
    ld = scn['landing']
    b = scn['blocks'][0]
    b['lead'] = {'n1': scn['n1'], 'pulse': gen_tzx.PROBE_PULSE}
    tape, start, machine, ranges, skip = gen_tzx.build(scn, wd)
    cfg = dict(scn['base'])
    cfg.update({'accelerator': scn['variants'][0]['accelerator'], 'accelerate-dec-a': 0, 'pause': 1, 'python': 1, 'fast-load': 0, 'cmio': 0, 'machine': machine, 'timeout': 120})
    tapeload.set_accelerator_order(0)
    e0, log = tapeload.probe_reads(tape, start, cfg, os.path.join(wd, 'probe.szx'), scn.get('extra_args', []), gen_tzx.PROBE_PULSE)
    bump(res, 'landing_probes')
    if e0 is None:
        return None
    lo, hi = e0 + 600, e0 + gen_tzx.PROBE_PULSE - 600
    ffwd = sorted(set(x for (t0, x) in log if x != t0 and lo < x < hi))
    entry = sorted(set(t0 for (t0, x) in log if lo < t0 < hi))
    pool = {'ffwd': ffwd or entry, 'entry': entry, 'any': sorted(set(ffwd + entry))}[ld['kind']]
    if not pool:
        return None
    t = pool[min(len(pool) - 1, int(ld['pick'] * len(pool)))]
    ld['pulse'] = max(1, min(65535, t - e0 + ld['delta']))
    ld['landed_on'] = 'ffwd-exit' if t in ffwd else 'sample'
    return ld['pulse']

def _run(scn, res, wd):
    try:
        if scn.get('landing'):
            if scn['landing'].get('pulse') is None and _landing(scn, res, wd) is None:
                res['discard'] = 'probe found no sampling instant inside the lead-in pulse'
                return res
            scn['blocks'][0]['lead'] = {'n1': scn['n1'], 'pulse': scn['landing']['pulse']}
            bump(res, 'fault:EDGE_ON_SAMPLING_INSTANT(%s,%+d)' % (scn['landing'].get('landed_on', '?'), scn['landing']['delta']))
    except tapeload.ToolError as e:
        return fail(res, 'C13/tool-error', 'probe: ' + str(e))
    try:
        if scn['source'] == 'bin2tap':
            tape, exp = p12.build_tape(scn, wd)
            if scn.get('decoy'):
                tape = gen_tzx.wrap_with_decoy(tape, scn['decoy'], wd)
                bump(res, 'fault:PILOTLESS_DECOY_BLOCK(pos %d)' % scn['decoy']['pos'])
            start = scn['start']
            machine = scn['machine']
            ranges = [(exp['begin'], exp['end'])]
            skip = (set(range(scn['stack'] - 18, scn['stack'])) | set(range(23552, 23562)) | {23611} | set(range(23672, 23675))) if scn['kind'] == '48' else set()
            if 'loader_range' in exp:
                skip |= set(range(*exp['loader_range']))
        elif scn['source'] == 'profiler':
            tape, start, machine, ranges, skip = gen_tzx.build_profiler(scn, wd)
        else:
            tape, start, machine, ranges, skip = gen_tzx.build(scn, wd)
    except tapeload.ToolError as e:
        return fail(res, 'C13/tool-error', str(e))
    timeout = 90 + scn['size'] // 100
    def load(v, tag):
        cfg = dict(scn['base'])
        for k in ('accelerator', 'accelerate-dec-a', 'pause', 'python', 'fast-load', 'cmio'):
            cfg[k] = v[k]
        cfg['machine'] = machine
        cfg['timeout'] = timeout
        tapeload.set_accelerator_order(v.get('order', 0))
        extra = scn.get('extra_args', [])
        out, st, snap = tapeload.load(tape, start, cfg, os.path.join(wd, 'out-%s.szx' % tag), extra)
        return tapeload.stripped(out), st, snap
    is128 = machine == '128'
    try:
        ref_cfg = {'accelerator': 'none', 'accelerate-dec-a': 0, 'pause': 1, 'python': 0, 'fast-load': 0, 'cmio': 0}
        out, st, snap = load(ref_cfg, 'ref')
        if 'PC at start address' not in out:
            res['discard'] = 'reference execution does not reach the start address'
            return res
        ref = final_state(st, snap, is128)
        bump(res, 'sim_tstates', st['regs'][25])
        bump(res, 'executions')
        h = hashlib.sha256(out.replace(wd, '<wd>').encode())
        h.update(repr(sorted((k, v if not isinstance(v, bytes) else hashlib.sha256(v).hexdigest()) for k, v in ref.items())).encode())
        # bytes of the data blocks' load ranges in the reference
        def loaded(snapx):
            if is128:
                ram = snapx.ram(-1)
                banks = [bytes(ram[i * 16384:(i + 1) * 16384]) for i in range(8)]
                mem = bytes(16384) + banks[5] + banks[2] + banks[snapx.out7ffd & 7]
            else:
                mem = bytes(16384) + bytes(snapx.ram())
            return bytes(mem[a] for (b, e) in ranges for a in range(b, min(e, 65536)) if a not in skip)
        ref_loaded = loaded(snap)
        for vi, v in enumerate(scn['variants']):
            out2, st2, snap2 = load(v, 'v%d' % vi)
            bump(res, 'executions')
            bump(res, 'sim_tstates', st2['regs'][25])
            for name, hits in (st2.get('acc_hits') or {}).items():
                bump(res, 'probe:accelerator_hit_' + name, hits)
            if st2.get('tsl_misses'):
                bump(res, 'probe:accelerator_misses', st2['tsl_misses'])
            for k in ('dec_a_jr_hits', 'dec_a_jp_hits'):
                if st2.get(k):
                    bump(res, 'probe:' + k, st2[k])
            if v['fast-load']:
                bump(res, 'fault:CLOCK_JUMP(fast-load)')
            if v['accelerator'] != 'none' and not v['cmio']:
                bump(res, 'fault:CLOCK_JUMP(accelerator)')
            if v['accelerate-dec-a'] and not v['cmio']:
                bump(res, 'fault:CLOCK_JUMP(dec-a)')
            if not v['pause']:
                bump(res, 'fault:PEER_FREE_RUNNING(pause=0)')
            if v['python']:
                bump(res, 'fault:ENGINE_PYTHON')
            if v['cmio']:
                bump(res, 'fault:ENGINE_CMIO')
            if 'order' in v:
                bump(res, 'fault:ORDER_PERM')
            if 'PC at start address' not in out2 and scn['source'] == 'bin2tap' and scn['kind'] == '48' and scn['stack'] < 16384 + 22:
                # minimum-stack hazard (DESIGN 11.3, C12): whether the frame interrupt lands inside SA/LD-RET depends on
                # timing, which this configuration legitimately changes; fewer than 22 bytes above ROM cannot take it
                bump(res, 'probe:min_stack_interrupt_hazard_skipped')
                continue
            if 'PC at start address' not in out2:
                return fail(res, 'C13/%s/not-started' % v['group'], 'configuration [%s] does not reach the start address (reference does): %s' % (_cfgstr(v), out2.strip().splitlines()[-2:]))
            got = final_state(st2, snap2, is128)
            if v['group'] == 'strict':
                d = _diff(ref, got)
                if d:
                    return fail(res, 'C13/strict/%s' % d[0][0], 'configuration [%s] differs from the literal execution [%s]:\n%s' % (
                        _cfgstr(v), _cfgstr(ref_cfg), '\n'.join('  %s: literal=%s this=%s' % x for x in d[:10])))
            else:
                if loaded(snap2) != ref_loaded:
                    a, b = ref_loaded, loaded(snap2)
                    j = next(i for i in range(len(a)) if a[i] != b[i])
                    return fail(res, 'C13/weak/data', 'configuration [%s]: loaded bytes differ at index %d of the data ranges %s (%d vs %d)' % (_cfgstr(v), j, ranges, a[j], b[j]))
                d = _diff(ref, got, ('reg.PC', 'reg.SP'))
                if d:
                    return fail(res, 'C13/weak/%s' % d[0][0], 'configuration [%s]: %s' % (_cfgstr(v), d))
            res['sigs'].append('%s|%s|%s' % (scn['source'] + ':' + str(scn['loader'] if scn['source'] == 'custom' else scn.get('family', scn.get('kind', ''))), machine, _cfgstr({k: v[k] for k in v if k != 'order'})))
    except tapeload.ToolError as e:
        return fail(res, 'C13/tool-error', str(e))
    res['digest'] = h.hexdigest()
    return res

def sample(scn, res):
    return {k: v for k, v in scn.items() if k not in ('bank_seeds',)}

def shrink_candidates(scn):
    def cp():
        return json.loads(json.dumps(scn))
    n = len(scn['variants'])
    if n > 1:
        for i in range(n):
            c = cp(); c['variants'] = [c['variants'][i]]; yield c
    v = scn['variants'][0] if n == 1 else None
    if v:
        for k, d in (('accelerate-dec-a', 0), ('pause', 1), ('python', 0), ('accelerator', 'none'), ('fast-load', 0), ('cmio', 0)):
            if v[k] != d:
                c = cp(); c['variants'][0][k] = d; yield c
    if scn['source'] == 'bin2tap':
        if scn['screen']:
            c = cp(); c['screen'] = False; yield c
        if 'data' in scn and scn['data']['len'] > 1 and 'begin' not in scn:
            for m in (1, scn['data']['len'] // 2):
                if 0 < m < scn['data']['len']:
                    c = cp(); c['data']['len'] = m
                    if c['kind'] == '48clear' and c['start'] >= c['org'] + m:
                        c['start'] = c['org']
                    yield c
    elif scn['source'] == 'custom':
        for c in gen_tzx.shrink_candidates(scn):
            yield c
    for k, d in (('polarity', 0), ('first-edge', 0), ('finish-tape', 0)):
        if scn['base'][k] != d:
            c = cp(); c['base'][k] = d; yield c

def describe():
    return {
        'rule': 'one evaluation = one tape (bin2tap tape, or a headerless TZX/PZX turbo tape with a custom loader whose sampling loop is the code signature of a named accelerator) loaded under 6-12 configurations; the literal execution (C engine, no acceleration, pause on, no fast load) is the reference. Landing scenarios: a long pulse inside the pilot tone makes the edge searches of the loader time out; a probe execution (Python engine, LoadTracer._read_port seam) records the instants at which the loader samples EAR and at which fast-forwards end, and the pulse length is then chosen so that its closing edge lands exactly on (or 1 T beside) such an instant. Distinct = distinct (tape source/loader, machine, configuration) triples.',
        'assumptions': ['final state is captured at simulator level by wrapping tap2sna.get_state (the snapshot file omits T); MEMPTR is not compared',
                        'the iteration order of the accelerator set is a seeded schedule choice (Accelerator.__hash__ patched by the harness)',
                        'scenarios whose reference execution does not reach the start address are discarded and counted'],
        'components': {'real': ['tap2sna.main / sim_load', 'LoadTracer (Python tape logic)', 'CSimulator.load (C tape logic)', 'loadsample.ACCELERATORS', 'tape.get_edges, TAP/TZX/PZX parsers', 'ROM LD-BYTES'],
                       'harness': ['tape/loader generator (zxsim/gen_tzx.py)', 'bin2tap scenarios from C12'], 'stubbed': []},
        'probes': ['accelerator_hit_rom', 'dec_a_jr_hits', 'dec_a_jp_hits', 'accelerator_misses'],
        'design_ref': 'DESIGN.md section 5, C13',
    }
