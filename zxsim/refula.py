"""RefULA - reference model of ZX Spectrum memory and I/O contention, written from
the published description (the 6,5,4,3,2,1,0,0 wait pattern).

48K : first contended T-state 14335, 224 T per scan line, 128 of them contended, 192 lines.
128K: first contended T-state 14361, 228 T per scan line, 128 of them contended, 192 lines.
Contended addresses: 0x4000-0x7FFF; on 128K also 0xC000-0xFFFF while an odd RAM bank is paged in.
I/O: the port address is on the bus; four documented patterns keyed on whether the high byte
looks like a contended address and on bit 0 of the port:
    high contended, bit0 = 0 : C:1, C:3
    high contended, bit0 = 1 : C:1, C:1, C:1, C:1
    high uncontended, bit0 = 0 : N:1, C:3
    high uncontended, bit0 = 1 : N:4
"""

PATTERN = (6, 5, 4, 3, 2, 1, 0, 0)

class RefULA:
    def __init__(self, machine):
        if machine == '48K':
            self.frame = 69888
            self.first = 14335
            self.line = 224
            self.is128 = False
        else:
            self.frame = 70908
            self.first = 14361
            self.line = 228
            self.is128 = True
        self.last = self.first + 192 * self.line

    def delay(self, t):
        t %= self.frame
        if t < self.first or t >= self.last:
            return 0
        lt = (t - self.first) % self.line
        if lt >= 128:
            return 0
        return PATTERN[lt % 8]

    def contended(self, addr, o7ffd):
        addr &= 0xFFFF
        if 0x4000 <= addr < 0x8000:
            return True
        if self.is128 and addr >= 0xC000 and (o7ffd & 1):
            return True
        return False

    def total_delay(self, t0, cycles, o7ffd=0):
        """Sum of the waits inserted while executing `cycles` starting at clock t0.
        o7ffd is the paging state in force for the whole instruction (a paging OUT
        takes effect after its own I/O cycle)."""
        t = t0
        total = 0
        for c in cycles:
            if c[0] == 'io':
                port = c[1]
                hi = self.contended(port, o7ffd)
                if port & 1:
                    if hi:
                        seq = ((True, 1),) * 4
                    else:
                        seq = ((False, 4),)
                else:
                    if hi:
                        seq = ((True, 1), (True, 3))
                    else:
                        seq = ((False, 1), (True, 3))
                for cont, n in seq:
                    if cont:
                        d = self.delay(t)
                        t += d
                        total += d
                    t += n
            else:
                addr, n = c
                if self.contended(addr, o7ffd):
                    d = self.delay(t)
                    t += d
                    total += d
                t += n
        return total
