"""C06 - all four simulator implementations execute every program identically (lock-step replicas)."""
import hashlib
import json
import os
import shutil
import signal
import time

from . import build, gen_lock, gen_prog, lockstep, p10, prng, exhaust, frames
from .harness import new_result, fail, bump, RunTimeout

PROP = 'C06'
RUNS = {'quick': 30000, 'thorough': 1500000}
BUDGET_S = {'quick': 150, 'thorough': 2400}
CHUNK = 100
PROPS = {'C06'}

def init():
    lockstep.init()
    p10.init()

N_FRAMES = {'quick': 400, 'thorough': frames.total('thorough')}

def gen(rng, tier, index):
    if index < len(exhaust.TEMPLATES):
        return {'kind': 'exhaust', 'template': list(exhaust.TEMPLATES[index]), 'machine': '48K'}
    index -= len(exhaust.TEMPLATES)
    if index < len(exhaust.CLOCK_TEMPLATES):
        return {'kind': 'exhaust', 'template': list(exhaust.CLOCK_TEMPLATES[index]), 'machine': '48K'}
    index -= len(exhaust.CLOCK_TEMPLATES)
    if index < frames.n_edge():
        return frames.edge_scenario(index)
    index -= frames.n_edge()
    if index < N_FRAMES[tier]:
        return frames.scenario(index if tier == 'thorough' else rng.randrange(frames.total(tier)))
    index -= N_FRAMES[tier]
    if index % 8 < 6:
        return gen_lock.gen_wstep(rng, tier, index // 8 * 6 + index % 8)
    if index % 16 == 7:
        return gen_tool(rng, tier, index)
    if index % 16 == 15:
        return gen_batch(rng, tier, index)
    return gen_lock.gen_wprog(rng, tier, index)

def gen_tool(rng, tier, index):
    """Tool level: trace.main with and without --python (Python loop in trace.Tracer.run vs C trace())."""
    machine = rng.choice(('48K', '48K', '128K', '+2'))
    interrupts = rng.random() < 0.85
    prog = gen_prog.gen_program(rng, machine, interrupts=interrupts)
    return {'kind': 'tool', 'machine': machine, 'prog': prog, 'start_fmt': rng.choice(('szx', 'z80')), 'cmio': rng.random() < 0.4,
            'interrupts': interrupts, 'N': prng.log_uniform(rng, 1, 3000), 'limit': rng.choice(('-m', '-m', '-M')),
            'verbose': rng.choice((0, 0, 1, 2)), 'decimal': rng.random() < 0.3, 'stats': rng.random() < 0.2, 'map': rng.random() < 0.2}

def _selfmod(rng, e):
    """An instruction that replaces its own first byte with EI / DD / FD (the run loops decide from a byte whether
    the interrupt must wait one instruction: the byte as it is after execution).  -> T-states up to its end."""
    v = rng.choice((0xFB, 0xFB, 0xDD, 0xFD))
    form = rng.randrange(3)
    a = e.pc
    if form == 0:
        e.emit(0x21); e.word((a + 3) & 0xFFFF); e.emit(0x36, v)                       # LD HL,a+3; a+3: LD (HL),v
        return 20
    if form == 1:
        e.emit(0x3E, v, 0x32); e.word((a + 2) & 0xFFFF)                               # LD A,v; a+2: LD (a+2),A
        return 20
    e.emit(0x01, v, 0xED, 0xED, 0x73); e.word(0xFFF0)                                 # LD BC,0xEDvv; LD (0xFFF0),SP
    e.emit(0x31); e.word((a + 12) & 0xFFFF); e.emit(0xC5, 0xED, 0x7B); e.word(0xFFF0)       # LD SP,a+12; a+10: PUSH BC; LD SP,(0xFFF0)
    return 51

def gen_batch(rng, tier, index):
    """simulator.run(start, stop, interrupts) on every replica from the same state (the four separately
    written interrupt schedulers); a straight-line program so that the stop address is reached."""
    machine = rng.choice(('48K', '48K', '128K'))
    frame = 69888 if machine == '48K' else 70908
    org = rng.choice((0x8000, 0x9000, 0xC000, 0x6000, rng.randrange(0x5B00, 0xF000)))
    e = gen_prog.Emitter(rng, org)
    use_int = rng.random() < 0.85
    iff = rng.choice((0, 1, 1))
    iff0 = iff
    alias = None
    if machine != '48K' and rng.random() < 0.25:
        # 128K: the program sits in bank 5 (0x4000-0x7FFF) or bank 2 (0x8000-0xBFFF) and the same bank is paged at 0xC000,
        # so a block copy through 0xC000+ can overwrite the copying instruction itself through the alias
        org = rng.choice((rng.randrange(0x5B00, 0x7F00), rng.randrange(0x8000, 0xBE00)))
        e = gen_prog.Emitter(rng, org)
        alias = 5 if org < 0x8000 else 2
    lead_t = None
    if use_int and alias is None and rng.random() < 0.15:
        # the program opens with the self-modifying instruction, timed (below) to end inside the INT-active window
        lead_t = _selfmod(rng, e)
        iff = iff0 = 1
    for _ in range(rng.randrange(1, 40)):
        k = rng.random()
        if k < 0.6:
            e.safe(1)
        elif k < 0.7:
            e.emit(0xFB)
            iff = 1
        elif k < 0.75:
            e.emit(0xF3)
            iff = 0
        elif k < 0.8:
            if iff and use_int:
                e.emit(0x76)            # HALT: leaves when the next interrupt arrives (the ISR ends with EI)
        elif k < 0.85:
            e.emit(0x06, rng.choice((1, 2, 5, 40)), 0x10, 0xFE)      # LD B,n; DJNZ $
        elif k < 0.9:
            e.emit(0x01); e.word(rng.choice((1, 2, 9, 300))); e.emit(0x21); e.word(rng.randrange(0x10000)); e.emit(0x11); e.word(rng.randrange(0x4000, 0x10000)); e.emit(0xED, rng.choice((0xB0, 0xB8)))
        elif k < 0.95:
            e.emit(0xED, rng.choice((0x57, 0x5F)))
        elif k < 0.97:
            _selfmod(rng, e)
        elif alias is not None:
            n = rng.randrange(3, 60)
            up = rng.random() < 0.6
            e.emit(0xF3, 0x01); e.word(n)                                  # DI; LD BC,n
            e.emit(0x21); e.word(rng.randrange(0x4000, 0x10000))           # LD HL,src
            at = (e.pc + 3) & 0xFFFF                                       # address of the LDIR / LDDR itself
            mirror = (at & 0x3FFF) | 0xC000
            k2 = rng.randrange(0, n)
            e.emit(0x11); e.word((mirror - k2) & 0xFFFF if up else (mirror + 1 + k2) & 0xFFFF)     # LD DE: the copy reaches the mirror after k2 bytes
            e.emit(0xED, 0xB0 if up else 0xB8)
            iff = 0
        else:
            for _ in range(rng.randrange(1, 4)):
                e.emit(rng.choice((0xDD, 0xFD)))
            e.safe(1)
    stop = e.pc
    isr = rng.choice((0xF000, 0x7000, 0xB000))
    mem = gen_prog.gen_mem(rng, machine)
    if alias is not None:
        mem['o7ffd'] = (mem.get('o7ffd', 0) & 0xD8) | alias            # not locked, bank 5 or 2 at 0xC000
    mem['patches'] += [[org, bytes(e.code).hex()], [isr, 'f5f1fbc9'], [0xFEFF, bytes((isr & 0xFF, isr >> 8)).hex()]]
    regs = gen_lock.gen_regs30(rng, machine, org)
    regs[12] = rng.choice((0x5C00, 0x7F00, 0xBF00, 0xFC00))      # never on the IM 2 vector at 0xFEFF
    regs[14] = 0xFE
    regs[27] = 2
    regs[26] = iff0
    regs[25] = rng.choice((frame - rng.randrange(1, 400), rng.randrange(0, 40), rng.randrange(frame), rng.randrange(frame) + frame * rng.randrange(1, 300)))
    if lead_t is not None:
        regs[25] = frame * rng.choice((1, 1, 2, 240, (1 << 32) // frame + 1)) - lead_t + rng.randrange(0, 31)
    return {'kind': 'batch', 'machine': machine, 'mem': mem, 'regs': regs, 'tracer': {'present': True, 'in_r_c': True, 'ini': True}, 'reads': gen_lock.gen_reads(rng),
            'stop': stop, 'interrupts': use_int, 'replicas': ['py', 'pyfast', 'c', 'pycmio', 'ccmio']}

def _alarm(signum, frame):
    raise RunTimeout()

class CHelper:
    """A helper process (forked once per worker) that executes the batch run() of the C replicas.  A C run() that never
    reaches its stop address polls for signals only when an instruction boundary falls inside a 10 T-state window
    every 2^24 T-states; some loop periods never do, so SIGALRM cannot be relied on to get control back from C.  The
    worker waits for the helper with a timeout, kills it if it does not answer and forks a new one when needed."""
    def __init__(self):
        self.pid = None

    def _spawn(self):
        import pickle, struct
        req_r, req_w = os.pipe()
        ans_r, ans_w = os.pipe()
        pid = os.fork()
        if pid == 0:
            try:
                os.close(req_w)
                os.close(ans_r)
                signal.signal(signal.SIGALRM, signal.SIG_DFL)
                signal.alarm(0)
                while True:
                    hdr = _read_exact(req_r, 4)
                    if hdr is None:
                        break
                    scn = pickle.loads(_read_exact(req_r, struct.unpack('<I', hdr)[0]))
                    try:
                        out = _batch_finals(scn, [k for k in scn['replicas'] if k in ('c', 'ccmio')], None)[0]
                    except BaseException as e:
                        out = {'error': '%s: %s' % (type(e).__name__, e)}
                    data = pickle.dumps(out)
                    _write_all(ans_w, struct.pack('<I', len(data)) + data)
            finally:
                os._exit(0)
        os.close(req_r)
        os.close(ans_w)
        self.pid, self.req, self.ans = pid, req_w, ans_r

    def submit(self, scn):
        import pickle, struct
        if self.pid is None:
            self._spawn()
        data = pickle.dumps(scn)
        _write_all(self.req, struct.pack('<I', len(data)) + data)

    def result(self, timeout):
        """-> finals dict, or None if the helper had to be killed."""
        import pickle, select, struct
        deadline = time.time() + timeout
        buf = b''
        need = 4
        size = None
        while True:
            left = deadline - time.time()
            rl = select.select([self.ans], [], [], max(0, left))[0] if left > 0 else []
            if not rl:
                self.kill()
                return None
            b = os.read(self.ans, 1 << 20)
            if not b:
                self.kill()
                return None
            buf += b
            if size is None and len(buf) >= 4:
                size = struct.unpack('<I', buf[:4])[0]
            if size is not None and len(buf) >= 4 + size:
                return pickle.loads(buf[4:4 + size])

    def kill(self):
        if self.pid is not None:
            try:
                os.kill(self.pid, signal.SIGKILL)
            except OSError:
                pass
            try:
                os.waitpid(self.pid, 0)
            except OSError:
                pass
            os.close(self.req)
            os.close(self.ans)
            self.pid = None

def _read_exact(fd, n):
    buf = b''
    while len(buf) < n:
        b = os.read(fd, n - len(buf))
        if not b:
            return None
        buf += b
    return buf

def _write_all(fd, data):
    while data:
        n = os.write(fd, data)
        data = data[n:]

_chelper = CHelper()

def _batch_finals(scn, kinds, limit_s):
    """run(start, stop, interrupts) on the given replicas -> ({kind: (regs, rams, port log)}, [kinds that timed out])"""
    st = lockstep.materialise_state(scn)
    machine = st['machine']
    finals = {}
    timed_out = []
    for kind in kinds:
        rp = lockstep.get_replica(kind, machine)
        rp.reset(st)
        if limit_s:
            old = signal.signal(signal.SIGALRM, _alarm)
            signal.alarm(limit_s)
        try:
            rp.sim.run(st['regs'][24], scn['stop'], scn['interrupts'])
        except RunTimeout:
            timed_out.append(kind)
            continue
        finally:
            if limit_s:
                signal.alarm(0)
                signal.signal(signal.SIGALRM, old)
        finals[kind] = (rp.regs(), rp.phys()[1], list(rp.world.log))
    return finals, timed_out

def run_batch(scn, res):
    st = lockstep.materialise_state(scn)
    machine = st['machine']
    # the C replicas run in the helper process while the Python replicas run here (interruptible by SIGALRM)
    for kind in scn['replicas']:
        lockstep.get_replica(kind, machine)
    ckinds = [k for k in scn['replicas'] if k in ('c', 'ccmio')]
    if ckinds:
        _chelper.submit(scn)
    finals, timed_out = _batch_finals(scn, [k for k in scn['replicas'] if k not in ('c', 'ccmio')], 3)
    if ckinds:
        cf = _chelper.result(1 if timed_out else 30)
        if cf is None:
            timed_out += ckinds
        elif 'error' in cf:
            return fail(res, 'C06/batch/exception', 'C replica raised %s' % cf['error'])
        else:
            finals.update(cf)
    if timed_out:
        # a wall-clock limit is load dependent, so it never decides a verdict: the scenario is discarded and counted
        res['discard'] = 'batch program does not reach its stop address within the time limit on %s' % ('all replicas' if len(timed_out) == len(scn['replicas']) else 'some replicas')
        return res
    return _compare_batch(scn, st, finals, res)

def _compare_batch(scn, st, finals, res):
    machine = st['machine']
    bump(res, 'batch_runs')
    for a, b, skip in (('py', 'pyfast', (29,)), ('py', 'c', (29,)), ('pycmio', 'ccmio', ())):
        if a in finals and b in finals:
            d = lockstep._first_diff(finals[a][0], finals[b][0], skip)
            if d >= 0:
                return fail(res, 'C06/batch/%s-vs-%s/reg.%s' % (a, b, lockstep.REGNAMES[d]), 'run(start=%d, stop=%d, interrupts=%s): %s=%d (%s) vs %d (%s)\n %s: %s\n %s: %s' % (
                    st['regs'][24], scn['stop'], scn['interrupts'], lockstep.REGNAMES[d], finals[a][0][d], a, finals[b][0][d], b, a, lockstep._fmt_regs(finals[a][0]), b, lockstep._fmt_regs(finals[b][0])))
            if finals[a][1] != finals[b][1]:
                return fail(res, 'C06/batch/%s-vs-%s/memory' % (a, b), 'RAM differs after run(): %s' % lockstep._memdiff(finals[a][1], finals[b][1]))
            if finals[a][2] != finals[b][2]:
                return fail(res, 'C06/batch/%s-vs-%s/ports' % (a, b), 'port logs differ after run()')
    res['sigs'] = ['batch|%s|%s' % (machine, scn['interrupts'])]
    res['digest'] = hashlib.sha256(repr(finals.get('py', finals.get('pycmio'))[0]).encode()).hexdigest()
    return res

def run_tool(scn, res):
    wd = build.workdir()
    try:
        machine = scn['machine']
        frame = 69888 if machine == '48K' else 70908
        start, extra = p10.write_start(scn, wd)
        args = [scn['limit'], str(scn['N'] if scn['limit'] == '-m' else scn['N'] * 7)]
        if scn['verbose']:
            args.append('-' + 'v' * scn['verbose'])
        if scn['decimal']:
            args.append('-D')
        if scn['stats']:
            args.append('--stats')
        if scn['cmio']:
            args.append('--cmio')
        if not scn['interrupts']:
            args.append('-n')
        outs = {}
        for python in (False, True):
            a = list(args)
            if python:
                a.append('--python')
            mapf = os.path.join(wd, 'map-%d.txt' % python)
            if scn['map']:
                a += ['--map', mapf]
            try:
                out, caps = p10.run_trace(a + extra + [start, os.path.join(wd, 'end-%d.szx' % python)])
            except p10.ToolError as e:
                return fail(res, 'C06/tool/error', str(e))
            m = open(mapf).read() if scn['map'] else ''
            outs[python] = (out.replace('end-1.szx', 'end-0.szx').replace('map-1.txt', 'map-0.txt'), p10.extract(caps[-1], 1 << 62), m)
        bump(res, 'tool_pairs')
        if outs[False][0] != outs[True][0]:
            la, lb = outs[False][0].splitlines(), outs[True][0].splitlines()
            k = next((i for i in range(min(len(la), len(lb))) if la[i] != lb[i]), min(len(la), len(lb)))
            return fail(res, 'C06/tool/stdout', 'trace.py %s: output differs with --python at line %d\n  C     : %s\n  Python: %s' % (args, k, la[k] if k < len(la) else '<end>', lb[k] if k < len(lb) else '<end>'))
        d = p10.diff_states(outs[False][1], outs[True][1])
        if d:
            return fail(res, 'C06/tool/%s' % d[0][0], 'trace.py %s: final state differs with --python\n%s' % (args, '\n'.join('  %s: C=%s Python=%s' % x for x in d[:10])))
        if outs[False][2] != outs[True][2]:
            return fail(res, 'C06/tool/map', 'trace.py %s: --map output differs with --python' % args)
        res['sigs'] = ['tool|%s|%s|v%d|%s' % (machine, scn['cmio'], scn['verbose'], scn['limit'])]
        res['digest'] = hashlib.sha256(outs[False][0].replace(wd, '<wd>').encode()).hexdigest()
        return res
    finally:
        shutil.rmtree(wd, ignore_errors=True)

def run_exhaust(scn):
    res = new_result()
    runner = exhaust.run_clock if scn['template'][0] == 'clock' else exhaust.run
    bad, n = runner(tuple(scn['template']), ['py', 'c', 'pycmio', 'ccmio'], False, lambda vc, d: (vc, d))
    bump(res, 'events', n)
    bump(res, 'table_entries_compared', n)
    if bad:
        return fail(res, bad[0], bad[1])
    res['sigs'] = ['exhaust|%s' % '-'.join(str(x) for x in scn['template'])]
    res['digest'] = hashlib.sha256(('%s|%d' % (scn['template'], n)).encode()).hexdigest()
    return res

def run_frames(scn):
    res = new_result()
    sigs = set()
    try:
        lockstep.run_c06_frames(scn, res['stats'], sigs)
    except lockstep.Violation as v:
        return fail(res, v.vclass, v.detail)
    res['sigs'] = ['frames|%s|%s|%s' % (n, pair, scn['machine']) for n, pair in sigs]
    res['digest'] = hashlib.sha256(repr(sorted(res['stats'].items())).encode()).hexdigest()
    return res

def run(scn):
    if scn['kind'] == 'exhaust':
        return run_exhaust(scn)
    if scn['kind'] == 'frames':
        return run_frames(scn)
    if scn['kind'] == 'batch':
        return run_batch(scn, new_result())
    if scn['kind'] == 'tool':
        return run_tool(scn, new_result())
    res = new_result()
    sigs = set()
    try:
        lockstep.run(scn, PROPS, res['stats'], sigs)
    except lockstep.Violation as v:
        return fail(res, v.vclass, v.detail)
    res['sigs'] = ['%s%02X|%s' % (g, op, scn['machine'] == '48K') for (g, op) in sigs] if sigs else ['%s|%d|%s' % (scn['kind'], scn.get('slot', -1), scn['machine'])]
    res['digest'] = hashlib.sha256(repr(sorted(res['stats'].items())).encode()).hexdigest()
    return res

def sample(scn, res):
    if scn['kind'] in ('exhaust', 'frames'):
        return scn
    if scn['kind'] == 'tool':
        return {k: v for k, v in scn.items() if k != 'prog'}
    if scn['kind'] == 'batch':
        return {'kind': 'batch', 'machine': scn['machine'], 'stop': scn['stop'], 'regs': scn['regs'], 'patches': scn['mem']['patches']}
    return {'kind': scn['kind'], 'machine': scn['machine'], 'slot': scn.get('slot'), 'steps': scn['steps'], 'ints': scn['ints'],
            'regs': scn['regs'], 'tracer': scn['tracer'], 'patches': scn['mem']['patches'][-1:]}

def shrink_candidates(scn):
    if scn['kind'] == 'tool':
        def cp():
            return json.loads(json.dumps(scn))
        for n in (1, 2, scn['N'] // 2, scn['N'] - 1):
            if 0 < n < scn['N']:
                c = cp(); c['N'] = n; yield c
        for k in ('verbose', 'decimal', 'stats', 'map', 'cmio'):
            if scn[k]:
                c = cp(); c[k] = 0 if k == 'verbose' else False; yield c
        return
    if scn['kind'] == 'frames':
        yield from frames.shrink(scn)
        return
    if scn['kind'] in ('batch', 'exhaust'):
        return
    for c in gen_lock.shrink_candidates(scn):
        yield c

def describe():
    return {
        'rule': 'table comparisons (exhaust.py): every 8-bit table entry executed on py/c and pycmio/ccmio and compared (first 314 scenarios); batch: run(start, stop, interrupts) on all replicas; tool: trace.main with and without --python; lock-step scenarios: W-step = one dispatch slot (of 1792) executed from a generated state on all replicas; W-prog = generated program run event by event with scheduler-chosen interrupt offers. Distinct = distinct (scenario kind, slot, 48K/128K).',
        'assumptions': ['replicas are reset in place between scenarios (128K C replicas are rebuilt)', 'MEMPTR is compared only within the contended pair'],
        'components': {'real': ['Simulator', 'Simulator(fast_djnz, fast_ldir)', 'CSimulator', 'CMIOSimulator', 'CCMIOSimulator', 'pagingtracer.Memory', 'PagingTracer.write_port'],
                       'harness': ['World tracer (pre-drawn port reads)', 'state/program generators']},
        'probes': ['int_refused_after_ei_or_prefix'],
        'design_ref': 'DESIGN.md section 5, C06',
    }

def _with_tracer(scn):
    if 'tracer' not in scn or scn['tracer']['present'] or scn['machine'] == '48K':
        return None
    scn['tracer'] = {'present': True, 'in_r_c': True, 'ini': True}
    return scn

neutralisers = {'128k-no-tracer-paging': _with_tracer}
