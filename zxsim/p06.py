"""C06 - all four simulator implementations execute every program identically (lock-step replicas)."""
import hashlib

from . import gen_lock, lockstep
from .harness import new_result, fail, bump

PROP = 'C06'
RUNS = {'quick': 30000, 'thorough': 1500000}
BUDGET_S = {'quick': 150, 'thorough': 2400}
CHUNK = 400
PROPS = {'C06'}

def init():
    lockstep.init()

def gen(rng, tier, index):
    if index % 8 < 6:
        return gen_lock.gen_wstep(rng, tier, index // 8 * 6 + index % 8)
    return gen_lock.gen_wprog(rng, tier, index)

def run(scn):
    res = new_result()
    sigs = set()
    try:
        lockstep.run(scn, PROPS, res['stats'], sigs)
    except lockstep.Violation as v:
        return fail(res, v.vclass, v.detail)
    res['sigs'] = ['%s%02X|%s' % (g, op, scn['machine'] == '48K') for (g, op) in sigs] if sigs else ['%s|%d|%s' % (scn['kind'], scn.get('slot', -1), scn['machine'])]
    res['digest'] = hashlib.sha256(repr(sorted(res['stats'].items())).encode()).hexdigest()
    return res

def sample(scn, res):
    return {'kind': scn['kind'], 'machine': scn['machine'], 'slot': scn.get('slot'), 'steps': scn['steps'], 'ints': scn['ints'],
            'regs': scn['regs'], 'tracer': scn['tracer'], 'patches': scn['mem']['patches'][-1:]}

shrink_candidates = gen_lock.shrink_candidates

def describe():
    return {
        'rule': 'lock-step scenarios: W-step = one dispatch slot (of 1792) executed from a generated state on all replicas; W-prog = generated program run event by event with scheduler-chosen interrupt offers. Distinct = distinct (scenario kind, slot, 48K/128K).',
        'assumptions': ['replicas are reset in place between scenarios (128K C replicas are rebuilt)', 'MEMPTR is compared only within the contended pair'],
        'components': {'real': ['Simulator', 'Simulator(fast_djnz, fast_ldir)', 'CSimulator', 'CMIOSimulator', 'CCMIOSimulator', 'pagingtracer.Memory', 'PagingTracer.write_port'],
                       'harness': ['World tracer (pre-drawn port reads)', 'state/program generators']},
        'probes': ['int_refused_after_ei_or_prefix'],
        'design_ref': 'DESIGN.md section 5, C06',
    }

def _with_tracer(scn):
    if scn['tracer']['present'] or scn['machine'] == '48K':
        return None
    scn['tracer'] = {'present': True, 'in_r_c': True, 'ini': True}
    return scn

neutralisers = {'128k-no-tracer-paging': _with_tracer}
