"""Shared machinery for C12/C13: build a tape with bin2tap.main, load it with tap2sna.main under a
sim-load configuration, capture the simulator's final state (the snapshot file omits T)."""
import contextlib
import io
import os

_state = {}

def init():
    global bin2tap, tap2sna, snapshot_mod, loadsample
    from skoolkit import bin2tap, tap2sna, snapshot as snapshot_mod, loadsample
    orig = tap2sna.get_state
    def capture(simulator, tstates=True):
        r = orig(simulator, tstates)
        _state['regs'] = list(simulator.registers)
        _state['get_state'] = r
        tr = simulator.tracer
        _state['tracer'] = {'border': tr.border if isinstance(tr.border, int) else tr.border[-1][1] & 7,
                            'out7ffd': tr.out7ffd, 'outfffd': tr.outfffd, 'ay': list(tr.ay), 'outfe': tr.outfe}
        for k in ('tsl_misses', 'dec_a_jr_hits', 'dec_a_jp_hits', 'dec_a_misses'):
            if hasattr(tr, k):
                _state[k] = getattr(tr, k)
        accs = getattr(tr, 'accelerators', None)
        if accs:
            _state['acc_hits'] = {a.name: a.hits for a in accs if a.hits}
        return r
    tap2sna.get_state = capture

class ToolError(Exception):
    pass

def run_tool(mod, args):
    out = io.StringIO()
    try:
        with contextlib.redirect_stdout(out), contextlib.redirect_stderr(io.StringIO()):
            mod.main(args)
    except SystemExit as e:
        raise ToolError('%s.main%r exited: %s' % (mod.__name__, args, e))
    except Exception as e:
        raise ToolError('%s.main%r raised %s: %s' % (mod.__name__, args, type(e).__name__, e))
    return out.getvalue()

_order_seed = [None]

def set_accelerator_order(seed):
    """Hidden order: tap2sna keeps the accelerators in a set of objects hashed by id().  The harness makes the
    iteration order a seeded, recorded schedule choice by giving Accelerator a seeded __hash__."""
    import random
    names = sorted(loadsample.ACCELERATORS)
    rng = random.Random(seed)
    perm = list(range(len(names)))
    rng.shuffle(perm)
    rank = {n: p for n, p in zip(names, perm)}
    loadsample.Accelerator.__hash__ = lambda self: rank.get(self.name, 0) * 7919 + 13
    loadsample.Accelerator.__eq__ = lambda self, other: self is other

class Hang(Exception):
    pass

def load(tape, start, cfg, outfile, extra=()):
    """Run tap2sna on `tape` with sim-load configuration dict `cfg`; -> (stdout, captured state dict, Snapshot).
    Loads on the C engine run in a child process: the C load loop cannot be interrupted from Python, and a defect
    there may turn into an endless loop (the simulated LOAD's own time-out is part of what is being tested)."""
    if not int(cfg.get('python', 0)):
        from .harness import in_child, ChildKilled
        try:
            r = in_child(lambda: _load_tool(tape, start, cfg, outfile, extra), 120)
        except ChildKilled:
            raise Hang('tap2sna (C engine) did not return within 120 s and was killed: %r' % (cfg,))
        if r[0] == 'exc':
            raise ToolError(r[2])
        out, state = r[1]
    else:
        out, state = _load_tool(tape, start, cfg, outfile, extra)
    try:
        snap = snapshot_mod.Snapshot.get(outfile)
    except Exception as e:
        raise ToolError('snapshot written by tap2sna cannot be read back: %s: %s' % (type(e).__name__, e))
    return out, state, snap

def _load_tool(tape, start, cfg, outfile, extra):
    _state.clear()
    args = []
    if start is not None:
        args += ['--start', str(start)]
    for k, v in cfg.items():
        args += ['-c', '%s=%s' % (k, v)]
    args += list(extra) + [tape, outfile]
    out = run_tool(tap2sna, args)
    return out, dict(_state)

def stripped(out):
    """stdout without the progress percentages."""
    import re
    return re.sub(r'\[\s*[0-9.]+%\]\x08+', '', out)

class _ProbeDone(Exception):
    pass

def probe_reads(tape, start, cfg, outfile, extra, gap):
    """Load `tape` on the Python engine and record, for every read of the EAR port that starts within `gap`
    T-states after the edge that begins the (unique) pulse of length `gap`, the clock at entry and at exit
    (they differ when an accelerator fast-forwards).  -> (E0, [(entry T, exit T)...]) or (None, []).
    The seam is LoadTracer._read_port, which builds the tracer's read_port closure."""
    from skoolkit import loadtracer
    info = {'e0': None}
    log = []
    orig = loadtracer.LoadTracer._read_port
    def patched(self):
        f = orig(self)
        edges = self.edges
        for j in range(len(edges) - 1):
            if edges[j + 1] - edges[j] == gap:
                info['e0'] = edges[j]
                break
        e0 = info['e0']
        def g(registers, port):
            t0 = registers[25]
            r = f(registers, port)
            if e0 is not None and port & 0xFF == 0xFE and t0 >= e0:
                if t0 > e0 + gap + 500:
                    raise _ProbeDone('PROBE-DONE')
                log.append((t0, registers[25]))
            return r
        return g
    loadtracer.LoadTracer._read_port = patched
    try:
        try:
            load(tape, start, cfg, outfile, extra)
        except ToolError as e:
            if 'PROBE-DONE' not in str(e):
                raise
    finally:
        loadtracer.LoadTracer._read_port = orig
    return info['e0'], log
