"""RefZ80 - a small executable reference model of the Z80, written from the
Zilog manual and the agreed behaviour of undocumented opcodes.  Decoding is
algorithmic (x/y/z/p/q fields), not a transcription of SkoolKit's tables.

For the instruction at PC, step() executes it on the model state and returns
an Info record:
   t        T-states taken (without contention)
   m1       number of M1 (opcode fetch) cycles  (R increments by this, 7 bits)
   mask     which bits of F are defined by the documentation for this instruction
   cycles   ordered bus cycles for the ULA model:  (addr, n) = n T-states with
            `addr` on the address bus; ('io', port) = an I/O cycle
   writes   [(addr, value)] memory writes actually performed (ROM writes dropped)
   ports    [('in', port, value) | ('out', port, value)]
   lone_prefix  True if this step was a DD/FD prefix not followed by an indexable opcode
                (no interrupt may be accepted directly after it)
   ei       True for EI (no interrupt directly after it)

Register file layout is the 30-slot layout documented in the property
(A,F,B,C,D,E,H,L,IXh,IXl,IYh,IYl,SP,-,I,R,A',F',B',C',D',E',H',L',PC,T,IFF,IM,HALT,MEMPTR);
MEMPTR is not modelled.
"""

A, F, B, C, D, E, H, L, IXH, IXL, IYH, IYL, SP, _X, I, R = range(16)
XA, XF, XB, XC, XD, XE, XH, XL, PC, T, IFF, IM, HALT, MEMPTR = range(16, 30)

FS, FZ, F5, FH, F3, FPV, FN, FC = 0x80, 0x40, 0x20, 0x10, 0x08, 0x04, 0x02, 0x01
DOC = FS | FZ | FH | FPV | FN | FC      # 0xD7: every documented flag

PARITY = [0] * 256
for _i in range(256):
    PARITY[_i] = FPV if bin(_i).count('1') % 2 == 0 else 0

def sz(v):
    return (v & 0x80) | (FZ if v == 0 else 0)

def szp(v):
    return (v & 0x80) | (FZ if v == 0 else 0) | PARITY[v]

class Info:
    __slots__ = ('t', 'm1', 'mask', 'cycles', 'writes', 'ports', 'lone_prefix', 'ei', 'name', 'repeat', 'slot', 'alt_cycles')
    def __init__(self):
        self.t = 0
        self.m1 = 0
        self.mask = DOC
        self.cycles = []
        self.writes = []
        self.ports = []
        self.lone_prefix = False
        self.ei = False
        self.name = ''
        self.repeat = False
        self.slot = None
        self.alt_cycles = None

def indexable(op):
    """Is the unprefixed opcode `op` changed by a DD/FD prefix?"""
    x, y, z = op >> 6, (op >> 3) & 7, op & 7
    if op in (0xCB,):
        return True
    if x == 0:
        if z == 1:
            return y in (4, 1, 3, 5, 7)          # LD HL,nn ; ADD HL,rp
        if z == 2:
            return y in (4, 5)                   # LD (nn),HL ; LD HL,(nn)
        if z == 3:
            return y in (4, 5)                   # INC HL ; DEC HL
        if z in (4, 5, 6):
            return y in (4, 5, 6)
        return False
    if x == 1:
        if op == 0x76:
            return False
        return y in (4, 5, 6) or z in (4, 5, 6)
    if x == 2:
        return z in (4, 5, 6)
    return op in (0xE1, 0xE3, 0xE5, 0xE9, 0xF9)

class RefZ80:
    def __init__(self, frame_duration=69888, int_active=32):
        self.reg = [0] * 30
        self.frame_duration = frame_duration
        self.int_active = int_active
        self.peek = None        # fn(addr) -> byte
        self.poke = None        # fn(addr, value) -> bool (False if dropped: ROM)
        self.read_port = None   # fn(port) -> byte
        self.write_port = None  # fn(port, value)
        self.ini_reads = True   # if False, INI/IND/INIR/INDR read 0xBF... (tracer 'ini' flag off) - see machine.py
        self.in_r_c_reads = True

    # -- helpers ------------------------------------------------------------
    def _rd(self, info, addr, n=3):
        addr &= 0xFFFF
        info.cycles.append((addr, n))
        return self.peek(addr)

    def _wr(self, info, addr, v, n=3):
        addr &= 0xFFFF
        info.cycles.append((addr, n))
        if self.poke(addr, v & 0xFF):
            info.writes.append((addr, v & 0xFF))

    def _int(self, info, addr, count):
        """count internal T-states with addr on the bus (each checked separately for contention)."""
        addr &= 0xFFFF
        for _ in range(count):
            info.cycles.append((addr, 1))

    def _ir(self):
        return (self.reg[I] << 8) | self.reg[R]

    def _in(self, info, port, enabled=True, default=0xFF):
        """An I/O read cycle.  With no device attached (no tracer, or the tracer not
        connected to this instruction form) nothing answers: SkoolKit's convention is that
        IN reads 0xFF and INI/IND read 0xBF, and no port event is recorded."""
        info.cycles.append(('io', port))
        if self.read_port and enabled:
            v = self.read_port(port) & 0xFF
            info.ports.append(('in', port, v))
        else:
            v = default
        return v

    def _out(self, info, port, v):
        info.cycles.append(('io', port))
        if self.write_port:
            info.ports.append(('out', port, v))
            self.write_port(port, v)

    def rp(self, p, idx):
        """Register pair number p (BC, DE, HL/IX/IY, SP)."""
        r = self.reg
        if p == 0:
            return (r[B] << 8) | r[C]
        if p == 1:
            return (r[D] << 8) | r[E]
        if p == 2:
            h = (H, IXH, IYH)[idx]
            return (r[h] << 8) | r[h + 1]
        return r[SP]

    def set_rp(self, p, idx, v):
        r = self.reg
        v &= 0xFFFF
        if p == 0:
            r[B], r[C] = v >> 8, v & 0xFF
        elif p == 1:
            r[D], r[E] = v >> 8, v & 0xFF
        elif p == 2:
            h = (H, IXH, IYH)[idx]
            r[h], r[h + 1] = v >> 8, v & 0xFF
        else:
            r[SP] = v

    def r8(self, n, idx):
        """Register index for 3-bit field n (B,C,D,E,H,L,-,A), H/L replaced under an index prefix."""
        if n == 7:
            return A
        if n == 4:
            return (H, IXH, IYH)[idx]
        if n == 5:
            return (L, IXL, IYL)[idx]
        return (B, C, D, E)[n]

    # -- 8-bit ALU -----------------------------------------------------------
    def alu(self, op, v):
        r = self.reg
        a = r[A]
        c = r[F] & FC
        if op == 0 or op == 1:        # ADD / ADC
            k = c if op == 1 else 0
            res = a + v + k
            f = sz(res & 0xFF) | (FC if res > 0xFF else 0) | (FH if ((a & 0xF) + (v & 0xF) + k) > 0xF else 0)
            if ((a ^ ~v) & (a ^ res) & 0x80):
                f |= FPV
            r[A] = res & 0xFF
        elif op in (2, 3, 7):         # SUB / SBC / CP
            k = c if op == 3 else 0
            res = a - v - k
            f = sz(res & 0xFF) | FN | (FC if res < 0 else 0) | (FH if ((a & 0xF) - (v & 0xF) - k) < 0 else 0)
            if ((a ^ v) & (a ^ res) & 0x80):
                f |= FPV
            if op != 7:
                r[A] = res & 0xFF
        elif op == 4:                 # AND
            res = a & v
            f = szp(res) | FH
            r[A] = res
        elif op == 5:                 # XOR
            res = a ^ v
            f = szp(res)
            r[A] = res
        else:                         # OR
            res = a | v
            f = szp(res)
            r[A] = res
        r[F] = f

    def inc8(self, v):
        res = (v + 1) & 0xFF
        f = (self.reg[F] & FC) | sz(res) | (FH if (v & 0xF) == 0xF else 0) | (FPV if v == 0x7F else 0)
        self.reg[F] = f
        return res

    def dec8(self, v):
        res = (v - 1) & 0xFF
        f = (self.reg[F] & FC) | sz(res) | FN | (FH if (v & 0xF) == 0 else 0) | (FPV if v == 0x80 else 0)
        self.reg[F] = f
        return res

    def rot(self, op, v):
        """CB-group rotate/shift op (0..7) on v -> result; sets all flags."""
        c = self.reg[F] & FC
        if op == 0:      # RLC
            co = v >> 7
            res = ((v << 1) | co) & 0xFF
        elif op == 1:    # RRC
            co = v & 1
            res = (v >> 1) | (co << 7)
        elif op == 2:    # RL
            co = v >> 7
            res = ((v << 1) | c) & 0xFF
        elif op == 3:    # RR
            co = v & 1
            res = (v >> 1) | (c << 7)
        elif op == 4:    # SLA
            co = v >> 7
            res = (v << 1) & 0xFF
        elif op == 5:    # SRA
            co = v & 1
            res = (v >> 1) | (v & 0x80)
        elif op == 6:    # SLL (undocumented: shifts in 1)
            co = v >> 7
            res = ((v << 1) | 1) & 0xFF
        else:            # SRL
            co = v & 1
            res = v >> 1
        self.reg[F] = szp(res) | co
        return res

    def cond(self, y):
        f = self.reg[F]
        return ((f & FZ) == 0, (f & FZ) != 0, (f & FC) == 0, (f & FC) != 0,
                (f & FPV) == 0, (f & FPV) != 0, (f & FS) == 0, (f & FS) != 0)[y]

    def push(self, info, v):
        r = self.reg
        sp = r[SP]
        self._wr(info, sp - 1, v >> 8)
        self._wr(info, sp - 2, v & 0xFF)
        r[SP] = (sp - 2) & 0xFFFF

    def pop(self, info):
        r = self.reg
        sp = r[SP]
        lo = self._rd(info, sp)
        hi = self._rd(info, sp + 1)
        r[SP] = (sp + 2) & 0xFFFF
        return (hi << 8) | lo

    # -- interrupt -------------------------------------------------------------
    def accept_interrupt(self):
        """Maskable interrupt acknowledge (Spectrum: bus holds 0xFF).  Caller has checked IFF etc."""
        r = self.reg
        info = Info()
        info.name = 'INT'
        pc = r[PC]
        sp = r[SP]
        # The vector is read here before the return address is pushed.  The hardware pushes first; the
        # two orders differ only if the two stack bytes overlap the two vector bytes, a case the
        # property (instruction semantics) does not speak about and which is therefore not judged.
        if r[IM] == 2:
            va = (r[I] << 8) | 0xFF
            newpc = self.peek(va) | (self.peek((va + 1) & 0xFFFF) << 8)
            info.t = 19
        else:
            newpc = 0x38
            info.t = 13
        for a, v in (((sp - 1) & 0xFFFF, pc >> 8), ((sp - 2) & 0xFFFF, pc & 0xFF)):
            if self.poke(a, v):
                info.writes.append((a, v))
        r[SP] = (sp - 2) & 0xFFFF
        r[PC] = newpc
        r[T] += info.t
        r[R] = (r[R] & 0x80) | ((r[R] + 1) & 0x7F)
        r[IFF] = 0
        r[HALT] = 0
        info.m1 = 1
        return info

    # -- one step --------------------------------------------------------------
    def step(self):
        r = self.reg
        info = Info()
        pc = r[PC]
        if r[HALT]:
            # halted CPU executes NOPs, refetching the byte after the HALT opcode
            op = 0x76
            info.cycles.append(((pc + 1) & 0xFFFF, 4))
        else:
            op = self.peek(pc)
            info.cycles.append((pc, 4))
        info.m1 = 1
        idx = 0
        self._pc = pc
        if op == 0xDD or op == 0xFD:
            op2 = self.peek((pc + 1) & 0xFFFF)
            if not indexable(op2) or op2 in (0xDD, 0xFD, 0xED):
                # prefix with no effect on what follows: 4 T-states, one M1, next opcode decoded afresh
                info.t = 4
                info.lone_prefix = True
                info.name = 'PREFIX'
                info.slot = ('DD' if op == 0xDD else 'FD', op2)
                r[PC] = (pc + 1) & 0xFFFF
                self._finish(info)
                return info
            idx = 1 if op == 0xDD else 2
            info.cycles.append(((pc + 1) & 0xFFFF, 4))
            info.m1 = 2
            pc = (pc + 1) & 0xFFFF
            op = op2
            info.slot = ('DD' if idx == 1 else 'FD', op)
            base_t = 4
        else:
            base_t = 0
            info.slot = ('', op)
        self._exec_main(info, op, pc, idx, base_t)
        self._finish(info)
        return info

    def _finish(self, info):
        r = self.reg
        r[T] += info.t
        r[R] = (r[R] & 0x80) | ((r[R] + info.m1) & 0x7F)

    def _disp(self, info, pc, idx, extra_internal):
        """Fetch displacement at pc+1 (pc = address of the opcode after the prefix); -> effective address."""
        d = self._rd(info, pc + 1)
        if extra_internal:
            self._int(info, pc + 1, extra_internal)
        if d > 127:
            d -= 256
        return (self.rp(2, idx) + d) & 0xFFFF

    def _exec_main(self, info, op, pc, idx, t0):
        """Execute unprefixed/indexed opcode `op` located at pc (pc already past any DD/FD prefix)."""
        r = self.reg
        x, y, z = op >> 6, (op >> 3) & 7, op & 7
        p, q = y >> 1, y & 1
        nxt = pc + 1           # address after the opcode byte
        t = t0 + 4
        if x == 1:
            if op == 0x76:
                info.name = 'HALT'
                info.t = 4
                # (handled entirely here; PC advances only when an interrupt is about to be accepted)
                tt = r[T] + 4
                if r[IFF] and tt % self.frame_duration < self.int_active:
                    r[PC] = (self._pc + 1) & 0xFFFF
                    r[HALT] = 0
                else:
                    r[HALT] = 1
                return
            if y == 6 or z == 6:
                # LD (HL),r / LD r,(HL) ; with index prefix the register is the plain one
                if idx:
                    addr = self._disp(info, pc, idx, 5)
                    nxt += 1
                    t += 8
                else:
                    addr = self.rp(2, 0)
                if y == 6:
                    self._wr(info, addr, r[self.r8(z, 0)])
                else:
                    r[self.r8(y, 0)] = self._rd(info, addr)
                t += 3
            else:
                r[self.r8(y, idx)] = r[self.r8(z, idx)]
            info.name = 'LD r,r'
        elif x == 2:
            if z == 6:
                if idx:
                    addr = self._disp(info, pc, idx, 5)
                    nxt += 1
                    t += 8
                else:
                    addr = self.rp(2, 0)
                v = self._rd(info, addr)
                t += 3
            else:
                v = r[self.r8(z, idx)]
            self.alu(y, v)
            info.name = 'ALU'
        elif x == 0:
            if z == 0:
                if y == 0:
                    info.name = 'NOP'
                elif y == 1:
                    r[A], r[XA] = r[XA], r[A]
                    r[F], r[XF] = r[XF], r[F]
                    info.name = "EX AF,AF'"
                elif y == 2:
                    info.name = 'DJNZ'
                    self._int(info, self._ir(), 1)
                    d = self._rd(info, pc + 1)
                    nxt += 1
                    r[B] = (r[B] - 1) & 0xFF
                    t += 4
                    if r[B]:
                        self._int(info, pc + 1, 5)
                        t += 5
                        nxt = nxt + (d - 256 if d > 127 else d)
                else:
                    info.name = 'JR'
                    d = self._rd(info, pc + 1)
                    nxt += 1
                    t += 3
                    if y == 3 or self.cond(y - 4):
                        self._int(info, pc + 1, 5)
                        t += 5
                        nxt = nxt + (d - 256 if d > 127 else d)
            elif z == 1:
                if q == 0:
                    lo = self._rd(info, pc + 1)
                    hi = self._rd(info, pc + 2)
                    self.set_rp(p, idx, (hi << 8) | lo)
                    nxt += 2
                    t += 6
                    info.name = 'LD rp,nn'
                else:
                    hl = self.rp(2, idx)
                    v = self.rp(p, idx)
                    res = hl + v
                    f = (r[F] & (FS | FZ | FPV)) | (FC if res > 0xFFFF else 0) | (FH if ((hl & 0xFFF) + (v & 0xFFF)) > 0xFFF else 0)
                    r[F] = f
                    self.set_rp(2, idx, res)
                    self._int(info, self._ir(), 7)
                    t += 7
                    info.name = 'ADD HL,rp'
            elif z == 2:
                if p < 2:
                    addr = self.rp(p, 0)
                    if q == 0:
                        self._wr(info, addr, r[A])
                    else:
                        r[A] = self._rd(info, addr)
                    t += 3
                    info.name = 'LD A,(rp)'
                else:
                    lo = self._rd(info, pc + 1)
                    hi = self._rd(info, pc + 2)
                    addr = (hi << 8) | lo
                    nxt += 2
                    t += 6
                    if p == 2:
                        if q == 0:
                            v = self.rp(2, idx)
                            self._wr(info, addr, v & 0xFF)
                            self._wr(info, addr + 1, v >> 8)
                        else:
                            lo = self._rd(info, addr)
                            hi = self._rd(info, addr + 1)
                            self.set_rp(2, idx, (hi << 8) | lo)
                        t += 6
                        info.name = 'LD HL,(nn)'
                    else:
                        if q == 0:
                            self._wr(info, addr, r[A])
                        else:
                            r[A] = self._rd(info, addr)
                        t += 3
                        info.name = 'LD A,(nn)'
            elif z == 3:
                v = self.rp(p, idx)
                self.set_rp(p, idx, v + (1 if q == 0 else -1))
                self._int(info, self._ir(), 2)
                t += 2
                info.name = 'INC rp'
            elif z in (4, 5):
                if y == 6:
                    if idx:
                        addr = self._disp(info, pc, idx, 5)
                        nxt += 1
                        t += 8
                    else:
                        addr = self.rp(2, 0)
                    v = self._rd(info, addr)
                    self._int(info, addr, 1)
                    v = self.inc8(v) if z == 4 else self.dec8(v)
                    self._wr(info, addr, v)
                    t += 7
                else:
                    ri = self.r8(y, idx)
                    r[ri] = self.inc8(r[ri]) if z == 4 else self.dec8(r[ri])
                info.name = 'INC r'
            elif z == 6:
                if y == 6:
                    if idx:
                        d = self._rd(info, pc + 1)
                        n = self._rd(info, pc + 2)
                        self._int(info, pc + 2, 2)
                        if d > 127:
                            d -= 256
                        addr = (self.rp(2, idx) + d) & 0xFFFF
                        nxt += 2
                        t += 8
                    else:
                        n = self._rd(info, pc + 1)
                        addr = self.rp(2, 0)
                        nxt += 1
                        t += 3
                    self._wr(info, addr, n)
                    t += 3
                else:
                    r[self.r8(y, idx)] = self._rd(info, pc + 1)
                    nxt += 1
                    t += 3
                info.name = 'LD r,n'
            else:
                a = r[A]
                f = r[F]
                if y == 0:      # RLCA
                    co = a >> 7
                    r[A] = ((a << 1) | co) & 0xFF
                    r[F] = (f & (FS | FZ | FPV)) | co
                elif y == 1:    # RRCA
                    co = a & 1
                    r[A] = (a >> 1) | (co << 7)
                    r[F] = (f & (FS | FZ | FPV)) | co
                elif y == 2:    # RLA
                    co = a >> 7
                    r[A] = ((a << 1) | (f & FC)) & 0xFF
                    r[F] = (f & (FS | FZ | FPV)) | co
                elif y == 3:    # RRA
                    co = a & 1
                    r[A] = (a >> 1) | ((f & FC) << 7)
                    r[F] = (f & (FS | FZ | FPV)) | co
                elif y == 4:    # DAA
                    n = f & FN
                    c = f & FC
                    h = f & FH
                    lo = a & 0xF
                    corr = 0
                    co = c
                    if h or lo > 9:
                        corr |= 0x06
                    if c or a > 0x99:
                        corr |= 0x60
                        co = FC
                    if n:
                        res = (a - corr) & 0xFF
                        hf = FH if (h and lo < 6) else 0
                    else:
                        res = (a + corr) & 0xFF
                        hf = FH if lo > 9 else 0
                    r[A] = res
                    r[F] = szp(res) | n | co | hf
                elif y == 5:    # CPL
                    r[A] = a ^ 0xFF
                    r[F] = (f & (FS | FZ | FPV | FC)) | FH | FN
                elif y == 6:    # SCF
                    r[F] = (f & (FS | FZ | FPV)) | FC
                else:           # CCF
                    r[F] = (f & (FS | FZ | FPV)) | (FH if f & FC else 0) | ((f & FC) ^ FC)
                info.name = 'ACC/FLAG'
        else:   # x == 3
            if z == 0:
                info.name = 'RET cc'
                self._int(info, self._ir(), 1)
                t += 1
                if self.cond(y):
                    nxt = self.pop(info)
                    t += 6
            elif z == 1:
                if q == 0:
                    v = self.pop(info)
                    t += 6
                    if p == 3:
                        r[A], r[F] = v >> 8, v & 0xFF
                    else:
                        self.set_rp(p, idx, v)
                    info.name = 'POP'
                elif p == 0:
                    nxt = self.pop(info)
                    t += 6
                    info.name = 'RET'
                elif p == 1:
                    for i in range(6):
                        r[B + i], r[XB + i] = r[XB + i], r[B + i]
                    info.name = 'EXX'
                elif p == 2:
                    nxt = self.rp(2, idx)
                    info.name = 'JP (HL)'
                else:
                    r[SP] = self.rp(2, idx)
                    self._int(info, self._ir(), 2)
                    t += 2
                    info.name = 'LD SP,HL'
            elif z == 2:
                lo = self._rd(info, pc + 1)
                hi = self._rd(info, pc + 2)
                nxt += 2
                t += 6
                if self.cond(y):
                    nxt = (hi << 8) | lo
                info.name = 'JP cc'
            elif z == 3:
                if y == 0:
                    lo = self._rd(info, pc + 1)
                    hi = self._rd(info, pc + 2)
                    nxt = (hi << 8) | lo
                    t += 6
                    info.name = 'JP'
                elif y == 1:
                    self._exec_cb(info, pc, idx, t0)
                    return
                elif y == 2:
                    n = self._rd(info, pc + 1)
                    nxt += 1
                    self._out(info, (r[A] << 8) | n, r[A])
                    t += 7
                    info.name = 'OUT (n),A'
                elif y == 3:
                    n = self._rd(info, pc + 1)
                    nxt += 1
                    v = self._in(info, (r[A] << 8) | n)
                    r[A] = v
                    t += 7
                    info.name = 'IN A,(n)'
                elif y == 4:
                    sp = r[SP]
                    lo = self._rd(info, sp)
                    hi = self._rd(info, sp + 1)
                    self._int(info, sp + 1, 1)
                    v = self.rp(2, idx)
                    self._wr(info, sp + 1, v >> 8)
                    self._wr(info, sp, v & 0xFF)
                    self._int(info, sp, 2)
                    self.set_rp(2, idx, (hi << 8) | lo)
                    t += 15
                    info.name = 'EX (SP),HL'
                elif y == 5:
                    r[D], r[H] = r[H], r[D]
                    r[E], r[L] = r[L], r[E]
                    info.name = 'EX DE,HL'
                elif y == 6:
                    r[IFF] = 0
                    info.name = 'DI'
                else:
                    r[IFF] = 1
                    info.ei = True
                    info.name = 'EI'
            elif z == 4:
                lo = self._rd(info, pc + 1)
                hi = self._rd(info, pc + 2)
                nxt += 2
                t += 6
                if self.cond(y):
                    self._int(info, pc + 2, 1)
                    self.push(info, nxt & 0xFFFF)
                    nxt = (hi << 8) | lo
                    t += 7
                info.name = 'CALL cc'
            elif z == 5:
                if q == 0:
                    self._int(info, self._ir(), 1)
                    if p == 3:
                        v = (r[A] << 8) | r[F]
                    else:
                        v = self.rp(p, idx)
                    self.push(info, v)
                    t += 7
                    info.name = 'PUSH'
                elif p == 0:
                    lo = self._rd(info, pc + 1)
                    hi = self._rd(info, pc + 2)
                    self._int(info, pc + 2, 1)
                    self.push(info, (nxt + 2) & 0xFFFF)
                    nxt = (hi << 8) | lo
                    t += 13
                    info.name = 'CALL'
                elif p == 2:
                    self._exec_ed(info, pc)
                    return
                else:
                    raise AssertionError('prefix reached _exec_main')
            elif z == 6:
                n = self._rd(info, pc + 1)
                nxt += 1
                t += 3
                self.alu(y, n)
                info.name = 'ALU n'
            else:
                self._int(info, self._ir(), 1)
                self.push(info, nxt & 0xFFFF)
                nxt = y * 8
                t += 7
                info.name = 'RST'
        info.t = t
        r[PC] = nxt & 0xFFFF

    def _exec_cb(self, info, pc, idx, t0):
        r = self.reg
        if idx:
            # DD CB d op : pc points at the CB byte
            d = self._rd(info, pc + 1)
            op = self._rd(info, pc + 2)
            self._int(info, pc + 2, 2)
            if d > 127:
                d -= 256
            addr = (self.rp(2, idx) + d) & 0xFFFF
            nxt = pc + 3
            t = t0 + 4 + 8
            info.slot = ('DDCB' if idx == 1 else 'FDCB', op)
        else:
            op = self.peek((pc + 1) & 0xFFFF)
            info.cycles.append(((pc + 1) & 0xFFFF, 4))
            info.m1 = 2
            nxt = pc + 2
            t = 8
            info.slot = ('CB', op)
        x, y, z = op >> 6, (op >> 3) & 7, op & 7
        mem = idx or z == 6
        if mem:
            if not idx:
                addr = self.rp(2, 0)
            v = self._rd(info, addr)
            self._int(info, addr, 1)
            t += 4
        else:
            v = r[self.r8(z, 0)]
        if x == 0:
            res = self.rot(y, v)
            info.name = 'ROT'
        elif x == 1:
            f = (r[F] & FC) | FH | (0 if v & (1 << y) else FZ)
            # S and P/V are documented as unknown for BIT
            r[F] = f
            info.mask = FZ | FH | FN | FC
            info.name = 'BIT'
            res = None
        elif x == 2:
            res = v & ~(1 << y) & 0xFF
            info.name = 'RES'
        else:
            res = v | (1 << y)
            info.name = 'SET'
        if res is not None:
            if mem:
                self._wr(info, addr, res)
                t += 3
                if idx and z != 6:
                    r[self.r8(z, 0)] = res       # undocumented: result also copied to register
            else:
                r[self.r8(z, 0)] = res
        info.t = t
        r[PC] = nxt & 0xFFFF

    def _exec_ed(self, info, pc):
        r = self.reg
        op = self.peek((pc + 1) & 0xFFFF)
        info.cycles.append(((pc + 1) & 0xFFFF, 4))
        info.m1 = 2
        info.slot = ('ED', op)
        nxt = pc + 2
        t = 8
        x, y, z = op >> 6, (op >> 3) & 7, op & 7
        p, q = y >> 1, y & 1
        if x == 1:
            if z == 0:
                v = self._in(info, (r[B] << 8) | r[C], self.in_r_c_reads)
                if y != 6:
                    r[self.r8(y, 0)] = v
                r[F] = (r[F] & FC) | szp(v)
                t += 4
                info.name = 'IN r,(C)'
            elif z == 1:
                v = 0 if y == 6 else r[self.r8(y, 0)]
                self._out(info, (r[B] << 8) | r[C], v)
                t += 4
                info.name = 'OUT (C),r'
            elif z == 2:
                hl = self.rp(2, 0)
                v = self.rp(p, 0)
                c = r[F] & FC
                if q == 0:
                    res = hl - v - c
                    f = FN | (FC if res < 0 else 0) | (FH if ((hl & 0xFFF) - (v & 0xFFF) - c) < 0 else 0)
                    if ((hl ^ v) & (hl ^ res) & 0x8000):
                        f |= FPV
                else:
                    res = hl + v + c
                    f = (FC if res > 0xFFFF else 0) | (FH if ((hl & 0xFFF) + (v & 0xFFF) + c) > 0xFFF else 0)
                    if ((hl ^ ~v) & (hl ^ res) & 0x8000):
                        f |= FPV
                res &= 0xFFFF
                f |= ((res >> 8) & 0x80) | (FZ if res == 0 else 0)
                r[F] = f
                self.set_rp(2, 0, res)
                self._int(info, self._ir_after(info), 7)
                t += 7
                info.name = 'ADC HL'
            elif z == 3:
                lo = self._rd(info, pc + 2)
                hi = self._rd(info, pc + 3)
                addr = (hi << 8) | lo
                nxt += 2
                if q == 0:
                    v = self.rp(p, 0)
                    self._wr(info, addr, v & 0xFF)
                    self._wr(info, addr + 1, v >> 8)
                else:
                    lo = self._rd(info, addr)
                    hi = self._rd(info, addr + 1)
                    self.set_rp(p, 0, (hi << 8) | lo)
                t += 12
                info.name = 'LD rp,(nn)'
            elif z == 4:
                a = r[A]
                res = (0 - a) & 0xFF
                f = sz(res) | FN | (FC if a else 0) | (FH if (a & 0xF) else 0) | (FPV if a == 0x80 else 0)
                r[A] = res
                r[F] = f
                info.name = 'NEG'
            elif z == 5:
                nxt = self.pop(info)
                t += 6
                # RETN / RETI: IFF1 <- IFF2 (single IFF in this model: unchanged)
                info.name = 'RETN'
            elif z == 6:
                r[IM] = (0, 0, 1, 2)[y & 3]
                info.name = 'IM'
                info.mask = DOC
            else:
                if y == 0:
                    self._int(info, self._ir_after(info), 1)     # IR still holds the old I during this cycle
                    r[I] = r[A]
                    t += 1
                    info.name = 'LD I,A'
                elif y == 1:
                    self._int(info, self._ir_after(info), 1)
                    t += 1
                    info.name = 'LD R,A'
                    info.t = t
                    r[PC] = nxt & 0xFFFF
                    # R is loaded after the M1 increments: handled by caller via special flag
                    self._ld_r_a = True
                    return
                elif y in (2, 3):
                    self._int(info, self._ir_after(info), 1)
                    t += 1
                    info.name = 'LD A,I/R'
                    self._ld_a_ir = y
                    info.t = t
                    r[PC] = nxt & 0xFFFF
                    return
                elif y == 4:    # RRD
                    hl = self.rp(2, 0)
                    v = self._rd(info, hl)
                    self._int(info, hl, 4)
                    a = r[A]
                    self._wr(info, hl, ((a << 4) | (v >> 4)) & 0xFF)
                    r[A] = (a & 0xF0) | (v & 0x0F)
                    r[F] = (r[F] & FC) | szp(r[A])
                    t += 10
                    info.name = 'RRD'
                elif y == 5:    # RLD
                    hl = self.rp(2, 0)
                    v = self._rd(info, hl)
                    self._int(info, hl, 4)
                    a = r[A]
                    self._wr(info, hl, ((v << 4) | (a & 0x0F)) & 0xFF)
                    r[A] = (a & 0xF0) | (v >> 4)
                    r[F] = (r[F] & FC) | szp(r[A])
                    t += 10
                    info.name = 'RLD'
                else:
                    info.name = 'NOP(ED)'
        elif x == 2 and z < 4 and y >= 4:
            self._block(info, y, z)
            return
        else:
            info.name = 'NOP(ED)'
        info.t = t
        r[PC] = nxt & 0xFFFF

    def _ir_after(self, info):
        # the IR pair during internal cycles: only the high byte (I) matters to the ULA model
        return (self.reg[I] << 8) | self.reg[R]

    def _block(self, info, y, z):
        r = self.reg
        pc = self._pc
        inc = 1 if y in (4, 6) else -1
        rep = y >= 6
        hl = self.rp(2, 0)
        bc = self.rp(0, 0)
        t = 16
        repeat = False
        if z == 0:      # LDI/LDD/LDIR/LDDR
            de = self.rp(1, 0)
            v = self._rd(info, hl)
            self._wr(info, de, v)
            self._int(info, de, 2)
            bc = (bc - 1) & 0xFFFF
            self.set_rp(0, 0, bc)
            self.set_rp(1, 0, de + inc)
            self.set_rp(2, 0, hl + inc)
            r[F] = (r[F] & (FS | FZ | FC)) | (FPV if bc else 0)
            if rep and bc:
                self._int(info, de, 5)
                repeat = True
            info.name = 'LDI'
        elif z == 1:    # CPI/CPD/CPIR/CPDR
            v = self._rd(info, hl)
            self._int(info, hl, 5)
            a = r[A]
            res = (a - v) & 0xFF
            bc = (bc - 1) & 0xFFFF
            self.set_rp(0, 0, bc)
            self.set_rp(2, 0, hl + inc)
            r[F] = (r[F] & FC) | sz(res) | FN | (FH if ((a & 0xF) - (v & 0xF)) < 0 else 0) | (FPV if bc else 0)
            if rep and bc and res:
                self._int(info, hl, 5)
                repeat = True
            info.name = 'CPI'
        elif z == 2:    # INI/IND/INIR/INDR
            self._int(info, self._ir_after(info), 1)
            v = self._in(info, bc, self.ini_reads, 0xBF)
            self._wr(info, hl, v)
            b = (r[B] - 1) & 0xFF
            r[B] = b
            self.set_rp(2, 0, hl + inc)
            r[F] = (r[F] & ~FZ & 0xFF) | (FZ if b == 0 else 0)
            info.mask = FZ
            if rep and b:
                self._int(info, hl, 5)
                repeat = True
            info.name = 'INI'
        else:           # OUTI/OUTD/OTIR/OTDR
            self._int(info, self._ir_after(info), 1)
            v = self._rd(info, hl)
            b = (r[B] - 1) & 0xFF
            r[B] = b
            self._out(info, (b << 8) | r[C], v)
            self.set_rp(2, 0, hl + inc)
            r[F] = (r[F] & ~FZ & 0xFF) | (FZ if b == 0 else 0)
            info.mask = FZ
            if rep and b:
                # The published table says 'bc:1 x5' for the repeat.  B has already been decremented when
                # these cycles happen (it is decremented before the port write), so BC here is the
                # decremented pair; the table can also be read as BC at the start of the instruction,
                # which is how SkoolKit reads it.  Both readings are kept; see DESIGN.md (C19 soundness).
                alt = list(info.cycles)
                self._int(info, (b << 8) | r[C], 5)
                alt.extend(((((b + 1) & 0xFF) << 8) | r[C], 1) for _ in range(5))
                info.alt_cycles = alt
                repeat = True
            info.name = 'OUTI'
        if repeat:
            t += 5
            info.repeat = True
            r[PC] = pc
        else:
            r[PC] = (pc + 2) & 0xFFFF
        info.t = t

    # LD A,I / LD A,R / LD R,A need R after the M1 increments: wrap step()
    _ld_r_a = False
    _ld_a_ir = 0

def _wrap_step(orig):
    def step(self):
        self._ld_r_a = False
        self._ld_a_ir = 0
        r = self.reg
        info = orig(self)
        if self._ld_r_a:
            r[R] = r[A]
        elif self._ld_a_ir:
            v = r[I] if self._ld_a_ir == 2 else r[R]
            r[A] = v
            # P/V <- IFF2; known quirk: if an interrupt is accepted right after, P/V reads 0
            r[F] = (r[F] & FC) | sz(v) | (FPV if r[IFF] else 0)
            if r[IFF] and r[T] % self.frame_duration < self.int_active:
                info.mask = DOC & ~FPV
        return info
    return step

RefZ80.step = _wrap_step(RefZ80.step)
