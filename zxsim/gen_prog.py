"""Workload generators: memory images, CPU states and programs (W-prog).

Everything is drawn from the run's own random.Random; the result is plain data
(JSON-serialisable) so that a scenario can be replayed without the PRNG.

Memory specification (scenario field 'mem'):
  48K:  {'machine': '48K', 'ram': <bankspec>, 'patches': [[addr, hex], ...]}
        <bankspec> for the 48K of RAM at 0x4000
  128K: {'machine': '128K'|'+2', 'banks': [<bankspec> x 8], 'o7ffd': v,
         'patches': [[addr, hex], ...]}      patches are applied through the
        mapping selected by o7ffd (addresses 0x4000-0xFFFF)
  <bankspec> = {'rand': seed} | {'fill': byte} | {'zb64': zlib+base64}
"""
import base64
import zlib
import random

BOUNDARY_ADDRS = (0x0000, 0x0001, 0x3FFE, 0x3FFF, 0x4000, 0x4001, 0x7FFE, 0x7FFF, 0x8000, 0x8001,
                  0xBFFE, 0xBFFF, 0xC000, 0xC001, 0xFFFE, 0xFFFF)

def bank_bytes(spec, size):
    if 'rand' in spec:
        return bytearray(random.Random(spec['rand']).randbytes(size))
    if 'zb64' in spec:
        b = bytearray(zlib.decompress(base64.b64decode(spec['zb64'])))
        assert len(b) == size
        return b
    return bytearray([spec.get('fill', 0)]) * size

def to_zb64(data):
    return {'zb64': base64.b64encode(zlib.compress(bytes(data), 6)).decode()}

def materialise(mem):
    """-> (machine, ram) where ram is a 49152-byte bytearray (48K) or a list of 8 16K bytearrays."""
    machine = mem['machine']
    if machine == '48K':
        ram = bank_bytes(mem['ram'], 0xC000)
        for addr, hx in mem.get('patches', ()):
            data = bytes.fromhex(hx)
            for i, b in enumerate(data):
                a = (addr + i) & 0xFFFF
                if a >= 0x4000:
                    ram[a - 0x4000] = b
        return machine, ram
    banks = [bank_bytes(s, 0x4000) for s in mem['banks']]
    view = (None, banks[5], banks[2], banks[mem.get('o7ffd', 0) & 7])
    for addr, hx in mem.get('patches', ()):
        data = bytes.fromhex(hx)
        for i, b in enumerate(data):
            a = (addr + i) & 0xFFFF
            if a >= 0x4000:
                view[a >> 14][a & 0x3FFF] = b
    return machine, banks

def gen_mem(rng, machine, equal_banks=False):
    r = rng.random()
    def spec():
        if equal_banks or r < 0.25:
            return {'fill': 0}
        return {'rand': rng.getrandbits(48)}
    if machine == '48K':
        return {'machine': '48K', 'ram': spec(), 'patches': codec_patches(rng)}
    o7ffd = rng.choice((0, 0, 1, 3, 4, 5, 7, 16, 17, 23, 0x10 | rng.randrange(8), rng.randrange(32), rng.randrange(256)))
    return {'machine': machine, 'banks': [spec() for _ in range(8)], 'o7ffd': o7ffd, 'patches': codec_patches(rng)}

def codec_patches(rng):
    """Contents that stress the snapshot codecs used as durable storage: runs of 0xED and of equal bytes of
    critical lengths, placed at the ends and starts of 16K pages and elsewhere."""
    if rng.random() < 0.6:
        return []
    out = []
    for _ in range(rng.randrange(1, 5)):
        b = rng.choice((0xED, 0xED, 0xED, 0x00, 0xFF, rng.randrange(256)))
        n = rng.choice((1, 2, 3, 4, 5, 6, 254, 255, 256, 257))
        page_end = rng.choice((0x8000, 0xC000, 0x10000))
        r = rng.random()
        if r < 0.5:
            a = page_end - n
        elif r < 0.7:
            a = page_end - 0x4000
        else:
            a = rng.randrange(0x4000, 0x10000 - n)
        pre = bytes((rng.choice((0x00, 0xED, 0x41)),)) if a > 0x4000 and rng.random() < 0.7 else b''
        out.append([a - len(pre), (pre + bytes((b,)) * n).hex()])
    return out

# ---------------------------------------------------------------------------
# Instruction lengths (algorithmic; used only to lay out generated programs)

def ilen_main(op):
    x, y, z = op >> 6, (op >> 3) & 7, op & 7
    if x == 0:
        if z == 0:
            return 1 if y < 2 else 2
        if z == 1:
            return 3 if not (y & 1) else 1
        if z == 2:
            return 3 if y >= 4 else 1
        if z == 6:
            return 2
        return 1
    if x in (1, 2):
        return 1
    if z in (2, 4):
        return 3
    if z == 3:
        return {0: 3, 1: 2, 2: 2, 3: 2}.get(y, 1)
    if z == 5:
        return 3 if op == 0xCD else 1
    if z == 6:
        return 2
    return 1

def uses_hl_indirect(op):
    x, y, z = op >> 6, (op >> 3) & 7, op & 7
    if x == 0:
        return y == 6 and z in (4, 5, 6)
    if x == 1:
        return (y == 6) != (z == 6)
    if x == 2:
        return z == 6
    return False

def ilen_indexed(op):
    """Length of DD/FD op ... including the prefix (op not CB/DD/ED/FD)."""
    return 1 + ilen_main(op) + (1 if uses_hl_indirect(op) else 0)

def ilen_ed(op):
    if op & 0xC7 == 0x43:
        return 4
    return 2

_UNSAFE_MAIN = set([0x76, 0x10, 0x18, 0x20, 0x28, 0x30, 0x38, 0xC3, 0xC9, 0xCD, 0xE9, 0xF9, 0x31,
                    0xF3, 0xFB, 0xCB, 0xDD, 0xED, 0xFD, 0xD3, 0xDB])
for _op in range(0xC0, 0x100):
    if _op & 7 in (0, 2, 4, 7):
        _UNSAFE_MAIN.add(_op)
SAFE_MAIN = [op for op in range(256) if op not in _UNSAFE_MAIN]
SAFE_ED = [op for op in range(256) if not (0xA0 <= op <= 0xBF and op & 7 < 4) and op & 0xC7 not in (0x45, 0x46)
           and op not in (0x47,) and op & 0xC7 not in (0x40, 0x41)]

class Emitter:
    def __init__(self, rng, org):
        self.rng = rng
        self.org = org
        self.code = bytearray()

    @property
    def pc(self):
        return (self.org + len(self.code)) & 0xFFFF

    def emit(self, *bs):
        self.code.extend(b & 0xFF for b in bs)

    def word(self, w):
        self.emit(w & 0xFF, (w >> 8) & 0xFF)

    def safe(self, n=1, data_lo=0x4000):
        """n random instructions that do not change control flow."""
        rng = self.rng
        for _ in range(n):
            k = rng.random()
            if k < 0.55:
                op = rng.choice(SAFE_MAIN)
                self.emit(op, *[rng.randrange(256) for _ in range(ilen_main(op) - 1)])
            elif k < 0.67:
                self.emit(0xCB, rng.randrange(256))
            elif k < 0.80:
                op = rng.choice(SAFE_MAIN)
                self.emit(rng.choice((0xDD, 0xFD)), op, *[rng.randrange(256) for _ in range(ilen_indexed(op) - 2)])
            elif k < 0.88:
                self.emit(rng.choice((0xDD, 0xFD)), 0xCB, rng.randrange(256), rng.randrange(256))
            else:
                op = rng.choice(SAFE_ED)
                self.emit(0xED, op, *[rng.randrange(256) for _ in range(ilen_ed(op) - 2)])

PORTS = (0x00FE, 0xFEFE, 0x7FFD, 0x7FFD, 0xFFFD, 0xBFFD, 0x7FFC, 0x7FFF, 0x3FFD, 0x5FFD, 0xFFFE, 0xBFFE,
         0x00FD, 0x1F, 0xFF, 0xFB, 0x7F7D, 0x0001)

def special(e, rng, machine, depth=0):
    """One 'special' construct."""
    k = rng.randrange(19)
    if k == 0:      # block copy, small count, possibly overlapping / touching boundaries
        bc = rng.choice((1, 2, 3, 5, 8, 17))
        src = rng.choice((e.pc, rng.randrange(0x10000), rng.choice(BOUNDARY_ADDRS)))
        dst = rng.choice((e.pc + rng.randrange(-8, 40), rng.randrange(0x4000, 0x10000), rng.choice(BOUNDARY_ADDRS))) & 0xFFFF
        e.emit(0x01); e.word(bc); e.emit(0x21); e.word(src); e.emit(0x11); e.word(dst)
        e.emit(0xED, rng.choice((0xB0, 0xB8, 0xA0, 0xA8)))
    elif k == 1:    # CPIR/CPDR/CPI/CPD
        e.emit(0x01); e.word(rng.choice((1, 2, 4, 9))); e.emit(0x21); e.word(rng.randrange(0x10000))
        e.emit(0xED, rng.choice((0xB1, 0xB9, 0xA1, 0xA9)))
    elif k == 2:    # block I/O
        port = rng.choice(PORTS)
        e.emit(0x01); e.word((rng.choice((1, 2, 3, 6)) << 8) | (port & 0xFF)); e.emit(0x21); e.word(rng.randrange(0x4000, 0x10000))
        e.emit(0xED, rng.choice((0xA2, 0xA3, 0xAA, 0xAB, 0xB2, 0xB3, 0xBA, 0xBB)))
    elif k == 3:    # DJNZ loop
        e.emit(0x06, rng.choice((1, 2, 3, 7)))
        start = len(e.code)
        e.safe(rng.randrange(0, 3))
        off = start - (len(e.code) + 2)
        if off >= -126:
            e.emit(0x10, off & 0xFF)
    elif k in (4, 5):  # OUT
        port = rng.choice(PORTS)
        v = rng.choice((rng.randrange(256), rng.randrange(8), 0x10 | rng.randrange(8), 0x20 | rng.randrange(32), rng.randrange(16)))
        if rng.random() < 0.5:
            e.emit(0x3E, port >> 8, 0xD3, port & 0xFF) if rng.random() < 0.3 else e.emit(0x3E, v, 0xD3, port & 0xFF)
        else:
            e.emit(0x01); e.word(port); e.emit(0x3E, v)
            e.emit(0xED, rng.choice((0x79, 0x79, 0x41, 0x49, 0x51, 0x59, 0x61, 0x69, 0x71)))
    elif k == 6:    # IN
        port = rng.choice(PORTS)
        if rng.random() < 0.5:
            e.emit(0x3E, port >> 8, 0xDB, port & 0xFF)
        else:
            e.emit(0x01); e.word(port); e.emit(0xED, rng.choice((0x78, 0x40, 0x48, 0x50, 0x58, 0x60, 0x68, 0x70)))
    elif k == 7:    # EI (possibly followed closely by DI / HALT)
        e.emit(0xFB)
        r = rng.random()
        if r < 0.3:
            e.emit(0x76)
        elif r < 0.4:
            e.emit(0xF3)
        elif r < 0.5:
            e.emit(0xFB)
    elif k == 8:    # HALT
        e.emit(0x76)
    elif k == 9:    # prefix chain
        for _ in range(rng.randrange(1, 5)):
            e.emit(rng.choice((0xDD, 0xFD)))
        if rng.random() < 0.2:
            e.emit(rng.choice((0xFB, 0x76, 0xED)), ) if rng.random() < 0.5 else None
        e.safe(1)
    elif k == 10:   # LD A,I / LD A,R / LD R,A
        e.emit(0xED, rng.choice((0x57, 0x5F, 0x5F, 0x4F)))
    elif k == 11:   # IM n
        e.emit(0xED, rng.choice((0x46, 0x56, 0x5E, 0x4E, 0x66, 0x76, 0x7E)))
    elif k == 12:   # DI
        e.emit(0xF3)
    elif k == 13:   # PUSH/POP pair with junk between
        e.emit(rng.choice((0xC5, 0xD5, 0xE5, 0xF5))); e.safe(rng.randrange(0, 2)); e.emit(rng.choice((0xC1, 0xD1, 0xE1, 0xF1)))
    elif k == 14:   # forward JR/JP over junk, conditional or not
        junk = [rng.randrange(256) for _ in range(rng.randrange(0, 4))]
        if rng.random() < 0.5:
            e.emit(rng.choice((0x18, 0x20, 0x28, 0x30, 0x38)), len(junk)); e.emit(*junk) if junk else None
        else:
            e.emit(rng.choice((0xC3, 0xC2, 0xCA, 0xD2, 0xDA, 0xE2, 0xEA, 0xF2, 0xFA))); e.word(e.pc + 2 + len(junk)); e.emit(*junk) if junk else None
    elif k == 15:   # self-modifying store near the code
        tgt = (e.pc + rng.randrange(0, 24)) & 0xFFFF
        e.emit(0x3E, rng.randrange(256), 0x32); e.word(tgt)
    elif k == 16:   # AY: select register, write it, read it back (the AY is served on every machine by trace.py)
        r = rng.choice((rng.randrange(16), rng.randrange(16), rng.randrange(256)))
        e.emit(0x01); e.word(0xFFFD); e.emit(0x3E, r, 0xED, 0x79)
        if rng.random() < 0.8:
            e.emit(0x06, 0xBF, 0x3E, rng.randrange(256), 0xED, 0x79)
        if rng.random() < 0.5:
            e.safe(rng.randrange(0, 3))
        e.emit(0x01); e.word(0xFFFD); e.emit(0xED, rng.choice((0x78, 0x78, 0x50, 0x58)))
    elif k == 17:   # AY read back only (state set up earlier in the history)
        e.emit(0x01); e.word(rng.choice((0xFFFD, 0xFFFD, 0xC0FD, 0xFFFF))); e.emit(0xED, 0x78)
        e.emit(0x32); e.word(rng.randrange(0x5B00, 0x10000))
    else:           # 128K paging: page, touch 0xC000 area, possibly lock
        v = rng.choice((rng.randrange(8), 0x10 | rng.randrange(8), rng.randrange(32), 0x20 | rng.randrange(32), rng.randrange(256)))
        if rng.random() < 0.2:
            # the same write through OUTI: port (B-1):C, value from (HL)
            hp = rng.choice((0x7FFD, 0x7FFD, 0x3FFD, 0x00FD, 0xFFFD, 0xBFFD))
            a0 = rng.randrange(0x5B00, 0xBF00)
            e.emit(0x21); e.word(a0); e.emit(0x36, v, 0x01); e.word((((hp >> 8) + 1) & 0xFF) << 8 | (hp & 0xFF)); e.emit(0xED, rng.choice((0xA3, 0xAB)))
        if rng.random() < 0.85:
            e.emit(0x01); e.word(rng.choice((0x7FFD, 0x7FFD, 0x7FFD, 0x3FFD, 0x00FD, 0x7DFD))); e.emit(0x3E, v ^ rng.choice((0, 0, 1, 2, 0x10)), 0xED, 0x79)
        if rng.random() < 0.35:
            # a second write that keeps the mapping and changes only the lock bit / the unused bits
            e.emit(0x3E, v ^ rng.choice((0x20, 0x20, 0x40, 0x80, 0xE0)), 0xED, 0x79)
        a1 = rng.randrange(0xC000, 0x10000)
        e.emit(0x3A); e.word(a1); e.emit(0x3C, 0x32); e.word(rng.choice((a1, rng.randrange(0xC000, 0x10000))))

def gen_regs(rng, machine):
    regs = {}
    for r in ('A', 'F', 'B', 'C', 'D', 'E', 'H', 'L', 'IXh', 'IXl', 'IYh', 'IYl', 'I', 'R',
              '^A', '^F', '^B', '^C', '^D', '^E', '^H', '^L'):
        regs[r] = rng.choice((0, 0xFF, 0x80, 0x7F, rng.randrange(256), rng.randrange(256)))
    return regs

def pick_addr(rng, machine, lo=0x4000):
    r = rng.random()
    if r < 0.15:
        return rng.choice([a for a in BOUNDARY_ADDRS if a >= lo] or [lo])
    if r < 0.4:
        return rng.randrange(max(lo, 0x4000), 0x8000)     # contended RAM
    if r < 0.7:
        return rng.randrange(max(lo, 0x8000), 0xC000)
    return rng.randrange(max(lo, 0xC000), 0x10000)

def gen_t0(rng, frame, int_active):
    """Initial clock: phase biased towards the frame boundary and the interrupt window,
    magnitude log-uniform up to 2^27 (crosses 2^24)."""
    r = rng.random()
    if r < 0.45:
        phase = frame - 1 - rng.randrange(0, 3000)
    elif r < 0.6:
        phase = rng.choice((0, 1, int_active - 1, int_active, int_active + 1, frame - 1, frame - 4, frame - int_active, rng.randrange(0, 64)))
    elif r < 0.8:
        phase = rng.randrange(14000, 58100)      # display area (contention)
    else:
        phase = rng.randrange(frame)
    m = rng.random()
    if m < 0.6:
        frames = 0
    elif m < 0.8:
        frames = rng.randrange(1, 200)
    else:
        top = (1 << 27) // frame
        frames = rng.choice((239, 240, 236, 237, 480, rng.randrange(200, top)))   # 2^24/69888 = 240.05, 2^24/70908 = 236.6
    return frames * frame + phase

def gen_program(rng, machine, style=None, interrupts=True):
    """-> dict(mem, regs, state, style); the program starts at regs['PC']."""
    frame = 69888 if machine == '48K' else 70908
    int_active = 32 if machine == '48K' else 36
    style = style or rng.choice(('structured',) * 5 + ('chaos',) * 2 + ('rom', 'io', 'io'))
    mem = gen_mem(rng, machine, equal_banks=rng.random() < 0.15)
    regs = gen_regs(rng, machine)
    state = {'im': rng.choice((0, 1, 1, 2, 2)), 'iff': rng.choice((0, 1, 1)), 'tstates': gen_t0(rng, frame, int_active),
             'border': rng.randrange(8), 'fe': rng.randrange(256)}
    if machine != '48K':
        state['7ffd'] = mem['o7ffd']
        state['fffd'] = rng.choice((0, 7, 14, 15, 16, rng.randrange(256)))
        state['ay'] = [rng.randrange(256) for _ in range(16)]
    if style == 'rom':
        regs['PC'] = rng.choice((0, 0x11CB, 0x0038, 0x0D6B, 0x1219, 0x02BF, rng.randrange(0x3D00)))
        regs['SP'] = rng.randrange(0x5C00, 0x10000)
        regs['IYh'], regs['IYl'] = 0x5C, 0x3A
        state['im'] = 1
        return {'mem': mem, 'regs': regs, 'state': state, 'style': style}
    if style == 'chaos':
        regs['PC'] = pick_addr(rng, machine)
        regs['SP'] = rng.choice((pick_addr(rng, machine), rng.choice(BOUNDARY_ADDRS), rng.randrange(0x10000)))
        # make sure there is something other than zeros to execute
        if 'fill' in (mem.get('ram') or mem['banks'][5]):
            blob = bytes(rng.randrange(256) for _ in range(256))
            mem['patches'].append([regs['PC'], blob.hex()])
        return {'mem': mem, 'regs': regs, 'state': state, 'style': style}
    # structured / io
    org = pick_addr(rng, machine, 0x5B00)
    if org > 0xFE00:
        org = 0xFE00 if rng.random() < 0.8 else org      # a few programs wrap at 64K
    e = Emitter(rng, org)
    sp = rng.choice((pick_addr(rng, machine, 0x5B00), (org - rng.randrange(2, 64)) & 0xFFFF, rng.choice((0x4001, 0x4000, 0x8000, 0xC000, 0x0000, 0x0001, 0xFFFF))))
    isr_at = pick_addr(rng, machine, 0x5B00)
    ivec_hi = rng.choice((0x3B, 0x39, rng.randrange(0x40, 0x100), rng.randrange(0x40, 0x100)))
    regs['I'] = ivec_hi
    regs['SP'] = sp
    regs['PC'] = org
    n_blocks = rng.randrange(2, 12)
    p_special = 0.75 if style == 'io' else 0.45
    if rng.random() < 0.5:
        e.emit(0xED, (0x46, 0x56, 0x5E)[state['im']])
    if rng.random() < 0.6:
        e.emit(0xFB)
    loop_at = e.pc
    for _ in range(n_blocks):
        if rng.random() < p_special:
            if style == 'io' and rng.random() < 0.7:
                # force one of the port constructs
                for _try in range(8):
                    n0 = len(e.code)
                    special(e, rng, machine)
                    if any(b in (0xD3, 0xDB, 0xED) for b in e.code[n0:]):
                        break
            else:
                special(e, rng, machine)
        else:
            e.safe(rng.randrange(1, 4))
    if rng.random() < 0.7:
        e.emit(0xC3); e.word(loop_at)
    else:
        e.emit(0x76)
    patches = [[org, bytes(e.code).hex()]]
    # ISR
    ie = Emitter(rng, isr_at)
    if rng.random() < 0.7:
        ie.emit(0xF5)
        ie.safe(rng.randrange(0, 3))
        ie.emit(0xF1)
    else:
        ie.safe(rng.randrange(0, 3))
    r = rng.random()
    if r < 0.6:
        ie.emit(0xFB, 0xC9)
    elif r < 0.8:
        ie.emit(0xFB, 0xED, 0x4D)
    elif r < 0.9:
        ie.emit(0xED, 0x45)
    else:
        ie.emit(0xC9)
    patches.append([isr_at, bytes(ie.code).hex()])
    if ivec_hi >= 0x40:
        patches.append([(ivec_hi << 8) | 0xFF, bytes((isr_at & 0xFF, isr_at >> 8)).hex()])
    mem['patches'].extend(patches)
    return {'mem': mem, 'regs': regs, 'state': state, 'style': style}
